#!/bin/sh
# Builds the framework (bin/vcheck) and the base Go build cache (bin/gocache)
# from files on disk only (offline).
set -e
cd "$(dirname "$0")"
for d in /root/go/pkg/mod/golang.org/toolchain@v0.0.1-go1.25.5.linux-amd64/bin /opt/veriftools/go1.26.8/bin /root/go/pkg/mod/golang.org/toolchain@v0.0.1-go1.26.8.linux-amd64/bin; do
  if [ -x "$d/go" ]; then PATH="$d:$PATH"; break; fi
done
export PATH GOTOOLCHAIN=local GOPROXY=off GOSUMDB=off GOFLAGS=-mod=mod
unset GOWORK
mkdir -p bin evidence
# base build cache: everything that does not change between runs (standard
# library, x/tools, kessoku's dependencies, wire), plain and under -race.
# vcheck hard-links it into a private per-run cache, which is deleted on exit.
export GOCACHE="$PWD/bin/gocache"
mkdir -p "$GOCACHE"
(cd harness && go build -o ../bin/vcheck ./cmd/vcheck)
W=$(mktemp -d /tmp/vk-setup-XXXXXX)
trap 'rm -rf "$W"' EXIT
cat > "$W/go.mod" <<EOM
module vkwarm

go 1.24.0

require (
	github.com/mazrean/kessoku v0.0.0
	golang.org/x/sync v0.19.0
	github.com/google/wire v0.7.0
	golang.org/x/tools v0.42.0
)

replace github.com/mazrean/kessoku => /repo
EOM
cp /repo/go.sum "$W/go.sum"
mkdir -p "$W/warm"
cat > "$W/warm/warm.go" <<EOM
package main

import (
	"context"
	"errors"
	"fmt"
	"reflect"
	"regexp"
	"sync/atomic"
	"time"
	"encoding/json"
	"hash/fnv"
	"bufio"

	_ "github.com/google/wire"
	_ "github.com/mazrean/kessoku"
	"golang.org/x/sync/errgroup"
)

func main() {
	var g errgroup.Group
	_ = g.Wait()
	_, _, _, _, _, _, _ = context.Background, errors.New, fmt.Sprint, reflect.TypeOf, regexp.MustCompile, time.Now, json.Marshal
	var x atomic.Int64
	_ = x.Load()
	_ = fnv.New64a()
	_ = bufio.NewScanner
}
EOM
(cd "$W" && go build -o "$W/warm.bin" ./warm && go build -race -o "$W/warm-race.bin" ./warm && go build -o "$W/wire.bin" github.com/google/wire/cmd/wire) >/dev/null 2>&1 || echo "setup: warm-up build failed (the checks will compile what they need themselves)"
(cd /repo && GOWORK=off GOFLAGS=-mod=readonly go build -tags verif -o "$W/kessoku.bin" ./cmd/kessoku) >/dev/null 2>&1 || true
echo "setup ok: $(go version); base cache $(du -sh "$GOCACHE" | cut -f1)"
