#!/bin/sh
# Builds the framework (bin/vcheck) from files on disk only (offline).
set -e
cd "$(dirname "$0")"
for d in /root/go/pkg/mod/golang.org/toolchain@v0.0.1-go1.25.5.linux-amd64/bin /opt/veriftools/go1.26.8/bin /root/go/pkg/mod/golang.org/toolchain@v0.0.1-go1.26.8.linux-amd64/bin; do
  if [ -x "$d/go" ]; then PATH="$d:$PATH"; break; fi
done
export PATH GOTOOLCHAIN=local GOPROXY=off GOSUMDB=off GOFLAGS=-mod=mod
unset GOWORK
mkdir -p bin evidence
(cd harness && go build -o ../bin/vcheck ./cmd/vcheck)
echo "setup ok: $(go version)"
