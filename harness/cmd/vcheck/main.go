// vcheck runs one property check: vcheck -p C07 -tier quick
package main

import (
	"flag"
	"fmt"
	"os"

	"vharness/internal/checks"
	"vharness/internal/fsmon"
)

func main() {
	prop := flag.String("p", "", "property id")
	tier := flag.String("tier", "", "quick|thorough")
	flag.Parse()
	if *tier == "" {
		*tier = os.Getenv("VERIF_TIER")
	}
	if *tier != "thorough" {
		*tier = "quick"
	}
	switch *prop {
	case "C01":
		checks.CheckC01(*tier)
	case "C02":
		checks.CheckC02(*tier)
	case "C03":
		checks.CheckC03(*tier)
	case "C04":
		checks.CheckC04(*tier)
	case "C05":
		checks.CheckC05(*tier)
	case "C06":
		checks.CheckC06(*tier)
	case "C07":
		checks.CheckC07(*tier)
	case "C08":
		checks.CheckC08(*tier)
	case "C09":
		checks.CheckC09(*tier)
	case "C10":
		checks.CheckC10(*tier)
	case "C11":
		checks.CheckC11(*tier)
	case "C12":
		checks.CheckC12(*tier)
	case "diag":
		checks.Diag()
	case "smoke":
		checks.Smoke()
	case "C13":
		checks.CheckC13(*tier)
	case "C14":
		checks.CheckC14(*tier)
	case "C15":
		fsmon.CheckC15(*tier)
	case "C16":
		fsmon.CheckC16(*tier)
	default:
		fmt.Fprintln(os.Stderr, "unknown property", *prop)
		os.Exit(2)
	}
}
