package checks

import (
	"fmt"
	"go/ast"
	"go/parser"
	"go/token"
	"math/rand"
	"os"
	"path/filepath"
	"regexp"
	"sort"
	"strings"

	"vharness/internal/base"
	"vharness/internal/runner"
	"vharness/internal/spec"
)

// wirePair is one wire configuration in two copies: w (wire generates) and
// k (kessoku migrate + kessoku generate).
type wirePair struct {
	S          *spec.Spec // the abstract configuration (names without suffix)
	W, K       *spec.Spec
	WDir, KDir string
	WireOK     bool
	WireErr    string
	MigExit    int
	MigErr     string
	Migrated   string // kessoku.go content
	MigRuns    []string
	GenExit    int
	GenErr     string
	Band       string
	KBuildErr  string
	WBuildErr  string
	SetNames   []string
}

func wireOpts(i int, r *rand.Rand) spec.GenOpts {
	return spec.GenOpts{
		Wire:     true,
		MaxProvs: 2 + r.Intn(10),
		ErrP:     []float64{0, 0.3, 0.5}[r.Intn(3)],
		MultiInj: 1 + r.Intn(2),
		Files:    1,
		Ext:      r.Intn(3) == 0,
		CtxP:     []float64{0, 0.05}[r.Intn(2)],
		Fanout:   2 + r.Intn(2),
		ReuseP:   []int{10, 26, 40}[r.Intn(3)],
		NoSets:   true,
	}
}

// wireSetNames lists the package-level variables of a wire file that are
// initialised with wire.NewSet(...), however the declaration is spelled (one
// var each, a var block, several names in one specification).
func wireSetNames(src string) []string {
	f, err := parser.ParseFile(token.NewFileSet(), "wire.go", src, 0)
	if err != nil {
		return nil
	}
	var out []string
	for _, d := range f.Decls {
		gd, ok := d.(*ast.GenDecl)
		if !ok || gd.Tok != token.VAR {
			continue
		}
		for _, sp := range gd.Specs {
			vs := sp.(*ast.ValueSpec)
			for i, n := range vs.Names {
				if i >= len(vs.Values) {
					continue
				}
				if ce, ok := vs.Values[i].(*ast.CallExpr); ok {
					if se, ok := ce.Fun.(*ast.SelectorExpr); ok && se.Sel.Name == "NewSet" {
						out = append(out, n.Name)
					}
				}
			}
		}
	}
	return out
}

// prepareWire writes both copies, runs wire, migrate and the generator.
func prepareWire(w *runner.Workspace, specs []*spec.Spec, repeatMigrate int) []*wirePair {
	var pairs []*wirePair
	for i, s := range specs {
		p := &wirePair{S: s}
		p.W, p.K = s.Clone(), s.Clone()
		p.W.Name, p.K.Name = s.Name+"w", s.Name+"k"
		p.W.PkgName, p.K.PkgName = s.Name, s.Name
		p.WDir = filepath.Join(w.Root, "progs", p.W.Name)
		p.KDir = filepath.Join(w.Root, "progs", p.K.Name)
		extra := i%4 == 0
		for _, side := range []*spec.Spec{p.W, p.K} {
			files := side.EmitWire(rand.New(rand.NewSource(s.Seed^0x5eed)), extra)
			for name, content := range files {
				if name == "reg.go" {
					continue
				}
				base.WriteFile(filepath.Join(w.Root, "progs", side.Name, name), content)
			}
			for name, content := range s.ExtraWireFiles {
				base.WriteFile(filepath.Join(w.Root, "progs", side.Name, name), strings.ReplaceAll(content, "{{PKG}}", spec.ModulePath+"/progs/"+side.Name))
			}
		}
		if b, err := os.ReadFile(filepath.Join(p.WDir, "wire_sets.go")); err == nil {
			p.SetNames = append(p.SetNames, wireSetNames(string(b))...)
		}
		for _, content := range s.ExtraWireFiles {
			p.SetNames = append(p.SetNames, wireSetNames(content)...)
		}
		pairs = append(pairs, p)
	}
	base.Parallel(len(pairs), 16, func(i int) {
		p := pairs[i]
		// reference: google/wire
		r := base.Cmd{Dir: p.WDir, Name: w.Wire, Args: []string{"gen", "."}}.Run()
		p.WireOK = r.Exit == 0
		p.WireErr = r.Stderr
		if !p.WireOK {
			return
		}
		// migrate (several times, for determinism) and generate
		reps := repeatMigrate
		if repeatMigrate > 1 {
			// field accessors of two or more struct types are merged through a
			// Go map inside migrate: a two-entry map flips its iteration order
			// in about one process out of eight, so many fresh processes
			nStruct := 0
			for _, pr := range p.S.Provs {
				if pr.Kind == spec.PStruct {
					nStruct++
				}
			}
			if nStruct >= 2 {
				reps = 40
			}
		}
		for k := 0; k < reps; k++ {
			// every run starts from the same directory state (no previous output)
			out := filepath.Join(p.KDir, "kessoku.go")
			os.Remove(out)
			m := base.Cmd{Dir: p.KDir, Name: w.CLI, Args: []string{"migrate", "-o", "kessoku.go"}}.Run()
			if k == 0 {
				p.MigExit, p.MigErr = m.Exit, m.Stderr
			}
			b, err := os.ReadFile(out)
			if err != nil {
				p.MigRuns = append(p.MigRuns, "")
			} else {
				p.MigRuns = append(p.MigRuns, string(b))
			}
		}
		p.Migrated = p.MigRuns[0]
		if p.MigExit != 0 || p.Migrated == "" {
			return
		}
		// set the wire files aside
		os.Remove(filepath.Join(p.KDir, "wire.go"))
		os.Remove(filepath.Join(p.KDir, "wire_sets.go"))
		for name := range p.S.ExtraWireFiles {
			os.Remove(filepath.Join(p.KDir, name))
		}
		g := base.Cmd{Dir: p.KDir, Name: w.CLI, Args: []string{"kessoku.go"}}.Run()
		p.GenExit, p.GenErr = g.Exit, g.Stderr
		if b, err := os.ReadFile(filepath.Join(p.KDir, "kessoku_band.go")); err == nil {
			p.Band = string(b)
		}
	})
	// registration files, then compile both sides
	var names []string
	for _, p := range pairs {
		if !p.WireOK {
			continue
		}
		base.WriteFile(filepath.Join(p.WDir, "reg.go"), p.W.Emit()["reg.go"])
		names = append(names, p.W.Name)
		if p.MigExit == 0 && p.Migrated != "" {
			if p.GenExit == 0 && p.Band != "" {
				base.WriteFile(filepath.Join(p.KDir, "reg.go"), p.K.Emit()["reg.go"])
			}
			names = append(names, p.K.Name)
		}
	}
	errs := w.BuildNames(names)
	for _, p := range pairs {
		p.WBuildErr = errs[p.W.Name]
		p.KBuildErr = errs[p.K.Name]
	}
	return pairs
}

func (p *wirePair) files() map[string]string {
	out := map[string]string{}
	for _, d := range []string{p.WDir, p.KDir} {
		filepath.Walk(d, func(path string, info os.FileInfo, err error) error {
			if err != nil || info.IsDir() {
				return nil
			}
			rel, _ := filepath.Rel(filepath.Dir(d), path)
			b, _ := os.ReadFile(path)
			out[rel] = string(b)
			return nil
		})
	}
	out["wire.stderr.txt"] = p.WireErr
	out["migrate.stderr.txt"] = p.MigErr
	out["generate.stderr.txt"] = p.GenErr
	out["k-build-errors.txt"] = p.KBuildErr
	out["migrated-kessoku.go"] = p.Migrated
	return out
}

func wireFamily(tier string, off int64, nq, nt int) []*spec.Spec {
	return dynFamily(tierN(tier, nq, nt), base.Seed()+off, "m", wireOpts)
}

// ---------------------------------------------------------------- C13

func CheckC13(tier string) {
	rep := base.NewReport("C13", tier, "exploration")
	rep.Rule = "random google/wire configurations over the supported constructs (provider functions with/without error, NewSet with nesting/inline sets/references, Bind to value and pointer implementations, Value, InterfaceValue, Struct with \"*\"/listed fields for value and pointer, FieldsOf of value/pointer structs, Build with and without error, injector arguments incl. an unused one, sibling-package providers) with constructors deliberately not named New<Type>. Differential execution: google/wire's own generator produces the reference injector, kessoku migrate + kessoku generate the candidate; both are linked into one instrumented runner and called with identical argument identities, fault-free and with every fallible provider failing alone. Oracle: same result identity, same multiset of (provider, argument identities) invocations, kessoku's parameter types = the reference's argument types that the reference interpretation says are used, same failing provider's error. Configurations wire rejects are skipped, migrate refusals are counted (C14). Non-trivial = configuration with >= 3 elements in Build; distinct = distinct (configuration, injector, scenario)."
	rep.Assumptions = []string{"google/wire v0.7.0 (module cache) is the reference implementation", "provider identity hashes as in C02; structs built by wire.Struct derive their identity from their fields"}
	scratch := base.Scratch("C13")
	cli := base.BuildCLI(scratch)
	w := runner.NewWireWorkspace(scratch, cli)
	specs := wireFamily(tier, 13000, 60, 700)
	specs = append(specs, corpusSpecs("C13")...)
	pairs := prepareWire(w, specs, 1)
	var link []string
	var runnable []*wirePair
	for _, p := range pairs {
		switch {
		case !p.WireOK:
			rep.Eval("")
			rep.Count("rejected_by_wire", 1)
			if os.Getenv("VERIF_DEBUG") != "" {
				fmt.Fprintln(os.Stderr, "WIRE-REJECT", p.S.Name, lastLine(p.WireErr))
			}
			continue
		case p.WBuildErr != "":
			rep.Eval("")
			rep.Inconc("reference package does not compile: " + p.S.Name + ": " + firstLine(p.WBuildErr))
			continue
		case p.MigExit != 0 || p.Migrated == "":
			cls := migrateRefusalClass(p.MigErr)
			rep.Count("refused_by_migrate:"+cls, 1)
			if os.Getenv("VERIF_DEBUG") != "" {
				fmt.Fprintln(os.Stderr, "MIGRATE-REFUSES", p.S.Name, lastLine(p.MigErr))
			}
			// google/wire accepted the configuration and the family only uses the
			// supported constructs. Refusals with one of migrate's own documented
			// diagnostics (no constructor, unnamed implementation, ...) are counted;
			// an internal error or a "defined in multiple files" for sets that are
			// declared once means there is no migrated injector to compare at all.
			if cls == "other" || cls == "defined-in-multiple-files" {
				rep.Eval(p.S.Name + "/migrate")
				sub := cls
				if strings.Contains(lastLine(p.MigErr), "internal error") {
					sub = "internal-error"
				}
				rep.Violate(base.Violation{Sig: "C13/migrate-refuses-accepted-configuration/" + sub, What: fmt.Sprintf("%s: google/wire generates injectors for this configuration, kessoku migrate exits %d: %s", p.S.Name, p.MigExit, lastLine(p.MigErr)), Files: p.files()})
			} else {
				rep.Eval("")
			}
			continue
		case len(missingInjectors(p)) > 0:
			rep.Eval(p.S.Name + "/migrate")
			rep.Violate(base.Violation{Sig: "C13/injector-missing-from-migrated-file", What: fmt.Sprintf("%s: wire generates %v, but the migrated file has no kessoku.Inject declaration for them", p.S.Name, missingInjectors(p)), Files: p.files()})
			continue
		case p.GenExit != 0 || p.Band == "":
			rep.Eval(p.S.Name + "/generate")
			cls := refusalClass(lastLine(p.GenErr))
			if cls == "multiple-providers" {
				// which type? a bound implementation whose provider lives in a referenced set
				for _, t := range p.S.Types {
					if t.Kind == spec.KStruct && len(t.Impl) > 0 && strings.HasSuffix(lastLine(p.GenErr), "."+t.Name) {
						cls += "/bound-implementation-provided-by-a-referenced-set"
					}
				}
			}
			rep.Violate(base.Violation{Sig: "C13/generator-fails-on-migrated-file/" + cls, What: fmt.Sprintf("%s: wire accepts the configuration and migrate succeeds, but kessoku cannot generate from the migrated file: %s", p.S.Name, lastLine(p.GenErr)), Files: p.files()})
			continue
		case p.KBuildErr != "":
			rep.Eval(p.S.Name + "/compile")
			cls := "other"
			if es := parseCompileErrs(p.KBuildErr); len(es) > 0 {
				cls = msgClass(es[0].Msg) + "@" + filepath.Base(es[0].File)
			}
			rep.Violate(base.Violation{Sig: "C13/migrated-package-does-not-compile/" + cls, What: fmt.Sprintf("%s: %s", p.S.Name, strings.ReplaceAll(strings.TrimSpace(p.KBuildErr), "\n", " | ")), Files: p.files()})
			continue
		}
		link = append(link, p.W.Name, p.K.Name)
		runnable = append(runnable, p)
	}
	rep.Count("configurations_executed_on_both_sides", len(runnable))
	if len(runnable) == 0 {
		rep.Finish()
	}
	bin, err := w.BuildRunnerFor(link, "wirerunner")
	if err != nil {
		base.Fatalf("%v", err)
	}
	rng := rand.New(rand.NewSource(base.Seed()*3 + 13))
	var scs []runner.Scenario
	type scInfo struct {
		p    *wirePair
		in   *spec.Injector
		side string
		tag  string
		fail int
	}
	info := map[string]scInfo{}
	for _, p := range runnable {
		for _, in := range p.S.Injectors {
			ref := p.S.Interpret(in)
			var tags []string
			fails := map[string]int{}
			for k := 0; k < 2; k++ {
				tags = append(tags, fmt.Sprintf("ok%d", k))
			}
			for _, pid := range fallibleNeeded(p.S, ref) {
				t := fmt.Sprintf("fail%d", pid)
				tags = append(tags, t)
				fails[t] = pid
			}
			for _, tag := range tags {
				nonce := rng.Uint64() | 1
				for _, side := range []string{"w", "k"} {
					plan := map[int]runner.Action{}
					f := -1
					if pid, ok := fails[tag]; ok {
						plan[pid] = runner.Action{Fail: true}
						f = pid
					}
					id := fmt.Sprintf("%s%s/%s/%s", p.S.Name, side, in.Name, tag)
					scs = append(scs, runner.Scenario{ID: id, Prog: p.S.Name + side, Inj: in.Name, Nonce: nonce, NProv: len(p.S.Provs), Procs: 2, Plan: plan, Atomic: true, ZeroUnknown: true})
					info[id] = scInfo{p, in, side, tag, f}
				}
			}
		}
	}
	res := runner.Exec(scratch, bin, scs, 8)
	for id, inf := range info {
		if inf.side != "w" {
			continue
		}
		kid := fmt.Sprintf("%sk/%s/%s", inf.p.S.Name, inf.in.Name, inf.tag)
		wo, ko := res.Outcomes[id], res.Outcomes[kid]
		judgeC13(rep, inf.p, inf.in, inf.tag, inf.fail, wo, ko)
	}
	for _, c := range res.Crashes {
		rep.Violate(base.Violation{Sig: "C13/crash/" + c.Kind, What: "scenario " + c.Scenario + " crashed: " + firstLine(c.Text)})
	}
	rep.Finish()
}

// missingInjectors lists the injectors of the configuration for which the
// migrated file declares nothing (the injector name is the first argument of
// kessoku.Inject).
func missingInjectors(p *wirePair) []string {
	var out []string
	for _, in := range p.S.Injectors {
		if !strings.Contains(p.Migrated, fmt.Sprintf("%q", in.Name)) {
			out = append(out, in.Name)
		}
	}
	return out
}

func migrateRefusalClass(stderr string) string {
	l := lastLine(stderr)
	for _, k := range []string{"no constructor", "implementation type must be a named type", "package mismatch", "defined in multiple files", "return value"} {
		if strings.Contains(l, k) {
			return strings.ReplaceAll(k, " ", "-")
		}
	}
	return "other"
}

func normParamTypes(ts []string) []string {
	var out []string
	for _, t := range ts {
		if t == "context.Context" {
			out = append(out, t)
			continue
		}
		out = append(out, t)
	}
	sort.Strings(out)
	return out
}

func judgeC13(rep *base.Report, p *wirePair, in *spec.Injector, tag string, failPid int, wo, ko *runner.Outcome) {
	s := p.S
	key := ""
	if len(s.WireElems(in)) >= 3 {
		key = s.Name + "/" + in.Name + "/" + tag
	}
	rep.Eval(key)
	fail := func(sig, what string) {
		f := p.files()
		f["reference-outcome.json"] = jsonStr(wo)
		f["kessoku-outcome.json"] = jsonStr(ko)
		rep.Violate(base.Violation{Sig: "C13/" + sig, What: fmt.Sprintf("%s.%s [%s] wire elements %v :: %s", s.Name, in.Name, tag, s.WireElems(in), what), Files: f})
	}
	if wo == nil || !wo.Returned || wo.SetupErr != "" || wo.Panic != "" {
		rep.Inconc(fmt.Sprintf("reference injector did not run cleanly: %s.%s %s", s.Name, in.Name, tag))
		return
	}
	if ko == nil {
		rep.Inconc("no outcome for the kessoku side of " + s.Name + "." + in.Name)
		return
	}
	if ko.SetupErr != "" {
		fail("param-mismatch/"+classifySetup(ko.SetupErr), "kessoku's injector cannot be called with the original argument types: "+ko.SetupErr)
		return
	}
	// parameters: those of the reference's arguments that some invoked provider uses
	ref := s.Interpret(in)
	var want []string
	for _, t := range ref.Args {
		want = append(want, reflectName(s, t))
	}
	sort.Strings(want)
	got := normParamTypes(ko.ParamTypes)
	if strings.Join(want, ",") != strings.Join(got, ",") {
		cls := "extra"
		if len(got) < len(want) {
			cls = "missing"
		}
		if ft := featureOfMismatch(s, in, want, got); ft != "" {
			cls = ft[1:]
		}
		fail("param-mismatch/"+cls, fmt.Sprintf("kessoku's injector takes %v, the original injector's used argument types are %v (original signature takes %v)", got, want, wo.ParamTypes))
		return
	}
	if ko.Deadlock || !ko.Returned {
		fail("no-return", "kessoku's injector did not return")
		return
	}
	if ko.Panic != "" {
		fail("panic", ko.Panic)
		return
	}
	if tag[:2] == "ok" {
		if wo.ErrKind != "" {
			rep.Inconc("reference returned an error in a fault-free run")
			return
		}
		if ko.ErrKind != "" {
			fail("unexpected-error", "wire's injector succeeds, kessoku's returns "+ko.ErrText)
			return
		}
		if wo.ResultH != ko.ResultH {
			fail("result-differs", fmt.Sprintf("wire's injector returns identity %x, kessoku's %x", wo.ResultH, ko.ResultH))
			return
		}
		ws, ks := invocations(wo), invocations(ko)
		if ws != ks {
			fail("invocations-differ"+bindFeature(s, in), fmt.Sprintf("providers invoked by wire's injector: %s; by kessoku's: %s", ws, ks))
			return
		}
		rep.Count("successful_calls_compared", 1)
		if key != "" {
			rep.Sample(map[string]any{"configuration": s.Name + "." + in.Name, "wire_elements": s.WireElems(in), "result": fmt.Sprintf("%x", wo.ResultH), "providers_invoked": len(wo.Slots), "params": got})
		}
		return
	}
	// failure scenario
	if wo.ErrKind == "injected" {
		if ko.ErrKind != "injected" || ko.ErrPid != wo.ErrPid {
			fail("error-differs", fmt.Sprintf("wire's injector reports the error of provider %d, kessoku's reports kind=%q pid=%d text=%q (has error result: %v)", wo.ErrPid, ko.ErrKind, ko.ErrPid, ko.ErrText, ko.HasErrResult))
			return
		}
		rep.Count("failing_calls_compared", 1)
	}
}

func invocations(o *runner.Outcome) string {
	var xs []string
	for _, sl := range o.Slots {
		xs = append(xs, fmt.Sprintf("%d x%d %x", sl.Pid, sl.Calls, sl.Args))
	}
	sort.Strings(xs)
	return strings.Join(xs, "; ")
}

// reflectName renders a type the way reflect.Type.String() does for the
// program packages (package name qualifier, no import path).
func reflectName(s *spec.Spec, t int) string {
	tt := s.Types[t]
	q := func(name, pkg string) string {
		if pkg == "" {
			return s.PkgName + "." + name
		}
		for _, e := range s.ExtPkgs {
			if e.Dir == pkg {
				return e.Name + "." + name
			}
		}
		return pkg + "." + name
	}
	switch tt.Kind {
	case spec.KStruct, spec.KIface, spec.KNamedStr, spec.KNamedInt:
		return q(tt.Name, tt.Pkg)
	case spec.KPtr:
		return "*" + reflectName(s, tt.Base)
	case spec.KSlice:
		return "[]" + reflectName(s, tt.Base)
	case spec.KMap:
		return "map[string]" + reflectName(s, tt.Base)
	case spec.KFunc:
		return "func() " + reflectName(s, tt.Base)
	case spec.KArray:
		return "[2]" + reflectName(s, tt.Base)
	case spec.KAnon:
		return "struct { " + tt.Name + " uint64 }"
	case spec.KBasic:
		return tt.Name
	case spec.KCtx:
		return "context.Context"
	}
	return "?"
}

// featureOfMismatch names the construct behind a parameter mismatch, for the
// finding signature: a pointer-to-struct parameter that the configuration
// only supplies by value is the FieldsOf-on-value-struct case.
func featureOfMismatch(s *spec.Spec, in *spec.Injector, want, got []string) string {
	w := map[string]bool{}
	for _, x := range want {
		w[x] = true
	}
	ref := s.Interpret(in)
	for _, g := range got {
		if w[g] {
			continue
		}
		for _, pid := range ref.Needed {
			p := s.Provs[pid]
			if p.Kind != spec.PAssemble {
				continue
			}
			sb := p.Results[0]
			if s.Types[sb].Kind == spec.KPtr {
				sb = s.Types[sb].Base
			}
			// the value form of a struct that wire.Struct provides (wire gives S and *S)
			if s.Types[p.Results[0]].Kind == spec.KStruct && reflectName(s, p.Results[0]) == g {
				return "/wire-struct-consumed-by-value"
			}
			// a field excluded with wire:"-" under "*"
			for _, f := range s.Types[sb].Fields {
				if f.Tag != "" && reflectName(s, f.T) == g {
					return "/wire-struct-star-ignores-wire-dash-tag"
				}
			}
		}
		if strings.HasPrefix(g, "*") {
			for _, fr := range ref.FieldReads {
				if s.Types[fr.Via].Kind == spec.KStruct && "*"+reflectName(s, fr.Via) == g {
					return "/fieldsof-value-struct"
				}
			}
		}
	}
	return ""
}

// bindFeature tells whether the injector uses a Bind whose constructor is
// not named New<Type> (the by-name lookup case).
func bindFeature(s *spec.Spec, in *spec.Injector) string {
	ref := s.Interpret(in)
	for _, pid := range ref.Needed {
		p := s.Provs[pid]
		if p.Kind == spec.PFunc && len(p.Binds) > 0 {
			return "/with-bind"
		}
	}
	return ""
}

// ---------------------------------------------------------------- C14

func CheckC14(tier string) {
	rep := base.NewReport("C14", tier, "exploration")
	rep.Rule = "success side: the C13 family plus sibling packages sharing a package name under different aliases; for every configuration wire accepts and migrate converts: output is gofmt-clean, the package compiles once wire.go / wire_sets.go are set aside (exact imports: the compiler rejects unused and missing ones), every wire.NewSet variable is declared exactly once under its original name as a kessoku.Set, and 4 repeated migrate runs are byte-identical. Failure side: planted syntax error, type error (undefined provider), two packages of different names in one invocation, duplicate set name across merged packages, Bind without constructor: exit status != 0 and the output path neither created nor modified. Non-trivial = configuration with >= 1 set or sibling package; distinct = distinct (configuration, check)."
	rep.Assumptions = []string{"gofmt -l from the toolchain decides formatting", "wire files = files importing github.com/google/wire (wire.go, wire_sets.go)"}
	scratch := base.Scratch("C14")
	cli := base.BuildCLI(scratch)
	w := runner.NewWireWorkspace(scratch, cli)
	specs := dynFamily(tierN(tier, 40, 600), base.Seed()+14000, "m", func(i int, r *rand.Rand) spec.GenOpts {
		o := wireOpts(i, r)
		o.Ext = r.Intn(2) == 0
		return o
	})
	specs = append(specs, corpusSpecs("C14")...)
	pairs := prepareWire(w, specs, 4)
	for _, p := range pairs {
		s := p.S
		if !p.WireOK {
			rep.Eval("")
			rep.Count("rejected_by_wire", 1)
			continue
		}
		if p.MigExit != 0 {
			// failure side on natural refusals: no output file
			rep.Eval(s.Name + "/refused")
			rep.Count("refused_by_migrate:"+migrateRefusalClass(p.MigErr), 1)
			if p.Migrated != "" {
				rep.Violate(base.Violation{Sig: "C14/refusal-writes-output", What: s.Name + ": migrate exited non-zero (" + lastLine(p.MigErr) + ") but wrote kessoku.go", Files: p.files()})
			}
			continue
		}
		if p.Migrated == "" {
			rep.Eval("")
			rep.Count("no_output_(no_patterns)", 1)
			continue
		}
		key := ""
		if len(p.SetNames) > 0 || len(s.ExtPkgs) > 0 {
			key = s.Name
		}
		rep.Eval(key)
		fail := func(sig, what string) {
			rep.Violate(base.Violation{Sig: "C14/" + sig, What: s.Name + ": " + what, Files: p.files()})
		}
		// determinism
		for k, r := range p.MigRuns {
			if r != p.Migrated {
				fail("nondeterministic", fmt.Sprintf("run %d of migrate produced different bytes", k))
				break
			}
		}
		// gofmt-stable
		g := base.Cmd{Dir: p.KDir, Name: "gofmt", Args: []string{"-l", "kessoku.go"}}.Run()
		if strings.TrimSpace(g.Stdout) != "" || g.Exit != 0 {
			d := base.Cmd{Dir: p.KDir, Name: "gofmt", Args: []string{"-d", "kessoku.go"}}.Run()
			fail("not-gofmt-clean", "gofmt -l lists the output: "+firstLine(g.Stderr)+" "+strings.ReplaceAll(tail(d.Stdout, 400), "\n", " | "))
		}
		// compiles (imports exact, aliases consistent)
		if p.KBuildErr != "" {
			var userErrs []compileErr
			for _, e := range parseCompileErrs(p.KBuildErr) {
				if e.File == "kessoku.go" {
					userErrs = append(userErrs, e)
				}
			}
			if len(userErrs) > 0 {
				cls := msgClass(userErrs[0].Msg)
				if cls == "" {
					cls = "redeclared" // "other declaration of X": the continuation line of a redeclaration reported in another file
				}
				if cls == "undefined" {
					// declared in a wire file only (wire copies such declarations into wire_gen.go)?
					name := strings.TrimSpace(strings.TrimPrefix(userErrs[0].Msg, "undefined:"))
					for _, wf := range []string{"wire.go", "wire_sets.go"} {
						if b, err := os.ReadFile(filepath.Join(p.WDir, wf)); err == nil && regexp.MustCompile(`(?m)^(func|type|const|var) `+regexp.QuoteMeta(name)+`\b`).Match(b) {
							cls = "declared-only-in-wire-file"
						}
					}
				}
				fail("does-not-compile/"+cls, strings.ReplaceAll(strings.TrimSpace(p.KBuildErr), "\n", " | "))
			} else {
				rep.Count("compile_errors_outside_kessoku.go_(C13/C04_domain)", 1)
			}
		}
		// sets declared once under their original names
		f, err := parser.ParseFile(token.NewFileSet(), "kessoku.go", p.Migrated, 0)
		if err != nil {
			fail("unparsable", err.Error())
			continue
		}
		decl := map[string]int{}
		for _, d := range f.Decls {
			gd, ok := d.(*ast.GenDecl)
			if !ok || gd.Tok != token.VAR {
				continue
			}
			for _, sp := range gd.Specs {
				vs := sp.(*ast.ValueSpec)
				for i, n := range vs.Names {
					if i < len(vs.Values) {
						if ce, ok := vs.Values[i].(*ast.CallExpr); ok {
							if se, ok := ce.Fun.(*ast.SelectorExpr); ok && se.Sel.Name == "Set" {
								decl[n.Name]++
							}
						}
					}
				}
			}
		}
		for _, n := range p.SetNames {
			if decl[n] != 1 {
				fail("set-not-declared-once", fmt.Sprintf("wire set %s is declared %d times in the output", n, decl[n]))
			}
			delete(decl, n)
		}
		for n := range decl {
			fail("set-invented", "output declares a set "+n+" that the input does not have")
		}
		rep.Count("outputs_checked", 1)
		if key != "" {
			rep.Sample(map[string]any{"configuration": s.Name, "sets": p.SetNames, "sibling_packages": len(s.ExtPkgs), "bytes": len(p.Migrated), "sha": base.Sha([]byte(p.Migrated))})
		}
	}
	c14FailureSide(rep, w, pairs)
	rep.Finish()
}

// c14FailureSide plants invalid inputs into copies of accepted configurations.
func c14FailureSide(rep *base.Report, w *runner.Workspace, pairs []*wirePair) {
	n := 0
	for _, p := range pairs {
		if !p.WireOK || p.MigExit != 0 || p.Migrated == "" {
			continue
		}
		n++
		if n > 12 {
			break
		}
		wireSrc, err := os.ReadFile(filepath.Join(p.WDir, "wire.go"))
		if err != nil {
			continue
		}
		type plant struct {
			kind  string
			setup func(dir string) []string // returns migrate args
		}
		copyTo := func(dir string) {
			os.RemoveAll(dir)
			base.CopyTree(p.WDir, dir)
			os.Remove(filepath.Join(dir, "wire_gen.go"))
			os.Remove(filepath.Join(dir, "reg.go"))
			// import paths of sibling packages follow the directory
			filepath.Walk(dir, func(path string, info os.FileInfo, err error) error {
				if err == nil && !info.IsDir() && strings.HasSuffix(path, ".go") {
					b, _ := os.ReadFile(path)
					nb := strings.ReplaceAll(string(b), "/progs/"+p.W.Name+"/", "/progs/"+filepath.Base(dir)+"/")
					os.WriteFile(path, []byte(nb), 0o644)
				}
				return nil
			})
		}
		plants := []plant{
			{"syntax-error", func(dir string) []string {
				os.WriteFile(filepath.Join(dir, "wire.go"), []byte(strings.Replace(string(wireSrc), "wire.Build(", "wire.Build((", 1)), 0o644)
				return []string{"migrate"}
			}},
			{"type-error", func(dir string) []string {
				os.WriteFile(filepath.Join(dir, "wire.go"), []byte(strings.Replace(string(wireSrc), "wire.Build(", "wire.Build(\n\t\tNoSuchProviderAnywhere,", 1)), 0o644)
				return []string{"migrate"}
			}},
			{"bind-without-constructor", func(dir string) []string {
				extra := "\ntype lonelyIface interface{ Lonely() }\ntype LonelyImpl struct{}\n\nfunc (LonelyImpl) Lonely() {}\n\nfunc MakeLonely() LonelyImpl { return LonelyImpl{} }\n\nvar LonelySet = wire.NewSet(wire.Bind(new(lonelyIface), new(LonelyImpl)))\n"
				os.WriteFile(filepath.Join(dir, "wire.go"), []byte(string(wireSrc)+extra), 0o644)
				return []string{"migrate"}
			}},
			{"packages-mixed", func(dir string) []string {
				other := filepath.Join(dir, "otherpkg")
				os.MkdirAll(other, 0o755)
				os.WriteFile(filepath.Join(other, "wire.go"), []byte("//go:build wireinject\n\npackage otherpkg\n\nimport \"github.com/google/wire\"\n\ntype T struct{}\n\nfunc NewT() *T { return &T{} }\n\nvar OtherSet = wire.NewSet(NewT)\n"), 0o644)
				return []string{"migrate", ".", "./otherpkg"}
			}},
			{"packages-mixed-injector-only", func(dir string) []string {
				// the second package (another name) declares no set at all, only an injector
				other := filepath.Join(dir, "otherpkg")
				os.MkdirAll(other, 0o755)
				os.WriteFile(filepath.Join(other, "wire.go"), []byte("//go:build wireinject\n\npackage otherpkg\n\nimport \"github.com/google/wire\"\n\ntype T struct{}\n\nfunc NewT() *T { return &T{} }\n\nfunc InitT() *T {\n\twire.Build(NewT)\n\treturn nil\n}\n"), 0o644)
				return []string{"migrate", ".", "./otherpkg"}
			}},
			{"duplicate-set-name", func(dir string) []string {
				// the same package name in a second directory, declaring a set
				// with a name that also exists in the first
				other := filepath.Join(dir, "dup")
				os.MkdirAll(other, 0o755)
				name := "DupNamedSet"
				os.WriteFile(filepath.Join(dir, "wire_dup.go"), []byte("package "+p.W.PkgName+"\n\nimport \"github.com/google/wire\"\n\ntype DupA struct{}\n\nfunc NewDupA() *DupA { return &DupA{} }\n\nvar "+name+" = wire.NewSet(NewDupA)\n"), 0o644)
				os.WriteFile(filepath.Join(other, "wire.go"), []byte("package "+p.W.PkgName+"\n\nimport \"github.com/google/wire\"\n\ntype DupB struct{}\n\nfunc NewDupB() *DupB { return &DupB{} }\n\nvar "+name+" = wire.NewSet(NewDupB)\n"), 0o644)
				return []string{"migrate", ".", "./dup"}
			}},
			{"duplicate-set-name-same-file-name", func(dir string) []string {
				// as above, and both declaring files carry the same base name
				// (every package calls its wire file wire.go)
				other := filepath.Join(dir, "dup")
				os.MkdirAll(other, 0o755)
				name := "DupNamedSet"
				os.WriteFile(filepath.Join(dir, "wire_dup.go"), []byte("package "+p.W.PkgName+"\n\nimport \"github.com/google/wire\"\n\ntype DupA struct{}\n\nfunc NewDupA() *DupA { return &DupA{} }\n\nvar "+name+" = wire.NewSet(NewDupA)\n"), 0o644)
				os.WriteFile(filepath.Join(other, "wire_dup.go"), []byte("package "+p.W.PkgName+"\n\nimport \"github.com/google/wire\"\n\ntype DupB struct{}\n\nfunc NewDupB() *DupB { return &DupB{} }\n\nvar "+name+" = wire.NewSet(NewDupB)\n"), 0o644)
				return []string{"migrate", ".", "./dup"}
			}},
		}
		for pi, pl := range plants {
			for _, prior := range []string{"absent", "existing"} {
				dir := filepath.Join(w.Root, "progs", fmt.Sprintf("%sf%d%s", p.S.Name, pi, prior[:1]))
				copyTo(dir)
				args := pl.setup(dir)
				out := filepath.Join(dir, "kessoku.go")
				if prior == "existing" {
					os.WriteFile(out, []byte("package "+p.W.PkgName+"\n\n// previous migration output\n"), 0o644)
				}
				before := statFile(out)
				r := base.Cmd{Dir: dir, Name: w.CLI, Args: append(args, "-o", "kessoku.go")}.Run()
				after := statFile(out)
				rep.Eval(fmt.Sprintf("%s/invalid/%s/%s", p.S.Name, pl.kind, prior))
				var probs []string
				if r.Exit == 0 {
					probs = append(probs, "exit status 0")
				}
				if before != after {
					if before.Exists {
						probs = append(probs, "existing output file modified")
					} else {
						probs = append(probs, "output file written")
					}
				}
				if len(probs) > 0 {
					files := map[string]string{"stderr.txt": r.Stderr}
					if b, err := os.ReadFile(out); err == nil {
						files["kessoku.go"] = string(b)
					}
					if b, err := os.ReadFile(filepath.Join(dir, "wire.go")); err == nil {
						files["wire.go"] = string(b)
					}
					rep.Violate(base.Violation{Sig: "C14/invalid-input/" + pl.kind + "/" + strings.ReplaceAll(probs[0], " ", "-"), What: fmt.Sprintf("%s planted %s (output %s before): %s; stderr: %s", p.S.Name, pl.kind, prior, strings.Join(probs, "; "), lastLine(r.Stderr)), Files: files})
				} else {
					rep.Count("invalid_inputs_refused:"+pl.kind, 1)
				}
				os.RemoveAll(dir)
			}
		}
	}
}

func tail(s string, n int) string {
	if len(s) > n {
		return s[len(s)-n:]
	}
	return s
}
