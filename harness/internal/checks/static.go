package checks

import (
	"fmt"
	"go/ast"
	"go/token"
	"go/types"
	"math/rand"
	"os"
	"path/filepath"
	"regexp"
	"sort"
	"strings"

	"golang.org/x/tools/go/packages"

	"vharness/internal/base"
	"vharness/internal/runner"
	"vharness/internal/spec"
)

// staticOpts: the full type universe, hostile naming, several injectors and files.
func staticOpts(i int, r *rand.Rand) spec.GenOpts {
	return spec.GenOpts{
		MaxProvs: 1 + r.Intn(12),
		AsyncP:   []float64{0, 0.4, 0.7, 1.0}[r.Intn(4)],
		ErrP:     []float64{0, 0.3, 0.5}[r.Intn(3)],
		MultiInj: 1 + r.Intn(4),
		Files:    1 + r.Intn(3),
		Ext:      r.Intn(3) == 0,
		CtxP:     []float64{0, 0.1, 0.2}[r.Intn(3)],
		Hostile:  r.Intn(3) != 0,
		Static:   r.Intn(4) != 0,
		Fanout:   2 + r.Intn(3),
		ReuseP:   []int{10, 26, 45}[r.Intn(3)],
	}
}

// isolatedFeatureSpecs: one hostile feature per program, so that a compile
// error can be attributed to it.
func isolatedFeatureSpecs(seed int64, n int) []*spec.Spec {
	var out []*spec.Spec
	r := rand.New(rand.NewSource(seed))
	total := spec.RawCases + spec.ExtInCases
	for i := 0; i < n; i++ {
		// every static type construct in turn, alone in a tiny program: sync and
		// Async, as provider input / injector argument / requested type
		o := spec.GenOpts{MaxProvs: 1 + r.Intn(3), AsyncP: []float64{0, 1.0}[(i/total)%2], ErrP: 0.3, MultiInj: 1 + (i/(2*total))%2 + i%2, Files: 1 + i%2, Static: true, Ext: true,
			Fanout: 2, ReuseP: 20, ForceRaw: 1 + i%total, NoSets: true}
		s := spec.Generate(seed*977+int64(i)*13, fmt.Sprintf("f%04d", i), o)
		out = append(out, s)
	}
	return out
}

// expectFile renders zz_expect.go: for every injector a struct type whose
// fields spell the reference parameter and result types, so that the Go type
// checker resolves them in the package itself.
func expectFile(s *spec.Spec) string {
	var b strings.Builder
	for _, in := range s.Injectors {
		ref := s.Interpret(in)
		fmt.Fprintf(&b, "type xpct%s struct {\n\tR %s\n", in.Name, s.Expr(in.Ret, ""))
		for i, t := range ref.Args {
			if s.Types[t].Kind == spec.KCtx {
				continue
			}
			fmt.Fprintf(&b, "\tA%d %s\n", i, s.Expr(t, ""))
		}
		b.WriteString("}\n\n")
	}
	body := b.String()
	return s.Header(body) + body
}

// loadTypes type-checks the program packages (errors tolerated).
func loadTypes(w *runner.Workspace, progs []*runner.Prog) map[string]*packages.Package {
	out := map[string]*packages.Package{}
	var pats []string
	for _, p := range progs {
		pats = append(pats, "./progs/"+p.Spec.Name)
	}
	for i := 0; i < len(pats); i += 60 {
		j := min(i+60, len(pats))
		cfg := &packages.Config{Dir: w.Root, Fset: token.NewFileSet(), Env: os.Environ(),
			Mode: packages.NeedName | packages.NeedFiles | packages.NeedCompiledGoFiles | packages.NeedSyntax | packages.NeedTypes | packages.NeedTypesInfo | packages.NeedImports}
		pkgs, err := packages.Load(cfg, pats[i:j]...)
		if err != nil {
			base.Fatalf("packages.Load: %v", err)
		}
		for _, pk := range pkgs {
			name := filepath.Base(pk.PkgPath)
			out[name] = pk
		}
	}
	return out
}

type staticRun struct {
	W     *runner.Workspace
	Progs []*runner.Prog
	Pkgs  map[string]*packages.Package
}

func prepareStatic(prop string, specs []*spec.Spec, types bool) *staticRun {
	scratch := base.Scratch(prop)
	cli := base.BuildCLI(scratch)
	w := runner.NewWorkspace(scratch, cli)
	b := &Batch{Scratch: scratch, W: w}
	for _, s := range specs {
		b.Progs = append(b.Progs, w.Add(s))
	}
	w.Precheck(b.Progs)
	var gen []*runner.Prog
	for _, p := range b.Progs {
		if p.PreErr == "" {
			gen = append(gen, p)
		}
	}
	// multi-file programs: one invocation with all files for even programs,
	// one invocation per file for odd ones
	var one, per, forcedSolo []*runner.Prog
	var pairs [][2]*runner.Prog
	byName := map[string]*runner.Prog{}
	for _, p := range gen {
		byName[p.Spec.Name] = p
	}
	i := 0
	for _, p := range gen {
		switch p.Spec.InvMode {
		case "one":
			forcedSolo = append(forcedSolo, p)
		case "per":
			per = append(per, p)
		case "pair":
			if q := byName[p.Spec.PairWith]; q != nil {
				pairs = append(pairs, [2]*runner.Prog{q, p})
			} else {
				forcedSolo = append(forcedSolo, p)
			}
		case "first":
			if byName[p.Spec.PairWith] == nil {
				forcedSolo = append(forcedSolo, p)
			}
		default:
			if i%2 == 0 {
				one = append(one, p)
			} else {
				per = append(per, p)
			}
			i++
		}
	}
	// every fourth "one invocation" program is generated together with its
	// neighbour in a single CLI invocation spanning two packages (the name
	// allocator is shared across all files of an invocation)
	solo := forcedSolo
	for i := 0; i < len(one); i++ {
		if i%4 == 0 && i+1 < len(one) {
			pairs = append(pairs, [2]*runner.Prog{one[i], one[i+1]})
			i++
			continue
		}
		solo = append(solo, one[i])
	}
	w.Generate(solo, true)
	w.Generate(per, false)
	base.Parallel(len(pairs), 16, func(i int) { w.GenerateTogether(pairs[i][0], pairs[i][1]) })
	for _, p := range gen {
		if p.GenOK && len(p.Band) > 0 {
			base.WriteFile(filepath.Join(p.Dir, "zz_expect.go"), expectFile(p.Spec))
		}
	}
	w.Build(gen)
	sr := &staticRun{W: w, Progs: b.Progs}
	if types {
		var ok []*runner.Prog
		for _, p := range gen {
			if p.GenOK && len(p.Band) > 0 {
				ok = append(ok, p)
			}
		}
		sr.Pkgs = loadTypes(w, ok)
	}
	return sr
}

// ---------------------------------------------------------------- C04

var reErrLine = regexp.MustCompile(`^\S*?([\w.-]+\.go):(\d+):(\d+): (.*)$`)

type compileErr struct {
	File string
	Line int
	Msg  string
}

func parseCompileErrs(txt string) []compileErr {
	var out []compileErr
	for _, l := range strings.Split(txt, "\n") {
		m := reErrLine.FindStringSubmatch(strings.TrimSpace(l))
		if m == nil {
			continue
		}
		var ln int
		fmt.Sscan(m[2], &ln)
		out = append(out, compileErr{File: m[1], Line: ln, Msg: m[4]})
	}
	return out
}

// msgClass reduces a compiler message to its class.
func msgClass(m string) string {
	switch {
	case strings.HasPrefix(m, "declared and not used"):
		return "unused-variable"
	case strings.Contains(m, "no new variables"):
		return "no-new-variables"
	case strings.Contains(m, "imported and not used"), strings.Contains(m, "imported as") && strings.Contains(m, "not used"):
		return "unused-import"
	case strings.HasPrefix(m, "undefined:"):
		return "undefined"
	case strings.Contains(m, "redeclared"), strings.Contains(m, "already declared"):
		return "redeclared"
	case strings.Contains(m, "cannot use nil as"):
		return "nil-for-non-nillable"
	case strings.Contains(m, "cannot use"):
		return "type-mismatch"
	case strings.Contains(m, "not enough arguments"), strings.Contains(m, "too many arguments"), strings.Contains(m, "have (") && strings.Contains(m, "want ("):
		return "argument-count"
	case strings.Contains(m, "is not a type"), strings.Contains(m, "not a type"):
		return "not-a-type"
	case strings.Contains(m, "without instantiation"), strings.Contains(m, "cannot use generic"):
		return "generic-not-instantiated"
	case strings.Contains(m, "other declaration of"):
		return "" // continuation line
	case strings.Contains(m, "missing return"):
		return "missing-return"
	case strings.Contains(m, "assignment mismatch"):
		return "assignment-mismatch"
	case strings.Contains(m, "is not used"):
		return "unused-value"
	case strings.Contains(m, "invalid operation"):
		return "invalid-operation"
	case strings.Contains(m, "cannot refer to unexported"), strings.Contains(m, "not exported"):
		return "unexported"
	}
	return "other"
}

// stmtKind classifies the generated line an error points to.
func stmtKind(line string) string {
	t := strings.TrimSpace(line)
	switch {
	case strings.HasPrefix(t, "func "):
		return "signature"
	case strings.HasPrefix(t, "eg, ") || strings.HasPrefix(t, "eg :="):
		return "errgroup-prologue"
	case strings.HasPrefix(t, "return "):
		return "return"
	case strings.Contains(t, ".Fn()("):
		return "provider-call"
	case strings.HasPrefix(t, "var ") || (!strings.Contains(t, "=") && !strings.Contains(t, "(") && len(strings.Fields(t)) >= 2):
		return "var-spec"
	case strings.Contains(t, ":=") && strings.Contains(t, "."):
		return "field-read"
	case strings.Contains(t, "= make(chan"):
		return "channel-spec"
	case strings.HasPrefix(t, "\"") || strings.Contains(t, " \""):
		return "import"
	case strings.HasPrefix(t, "case <-") || strings.HasPrefix(t, "<-"):
		return "wait"
	}
	return "other"
}

func CheckC04(tier string) {
	rep := base.NewReport("C04", tier, "exploration")
	rep.Rule = "declarations over the full type universe (pointers, slices, arrays, maps, channels of all directions, function types incl. variadic, anonymous struct/interface, generic instances, aliases, sibling-package types under plain/aliased imports) x names adversarial to the allocator (Foo/Foo0/FooCh, Err, Eg, Ctx, Ch, Zero, Errgroup, Context, keywords/predeclared, lower-case package-level twins) x sync/async x 1..4 injectors per file x 1..3 files per invocation (single and per-file invocations); plus one-feature-per-program specs for attribution; plus the runnable family. The real CLI generates; go build decides. Non-trivial = generator exited 0 and wrote a file; distinct = distinct programs (spec hash)."
	rep.Assumptions = []string{"the user package alone compiles (checked first; a failure there is a harness bug and counts as inconclusive)", "compile errors only; vet-style diagnostics are ignored"}
	n := tierN(tier, 220, 3000)
	specs := dynFamily(n, base.Seed()+4000, "s", staticOpts)
	specs = append(specs, isolatedFeatureSpecs(base.Seed()+4100, tierN(tier, 176, 880))...)
	specs = append(specs, dynFamily(tierN(tier, 40, 300), base.Seed()+4200, "d", defaultOpts)...)
	specs = append(specs, corpusSpecs("C04")...)
	sr := prepareStatic("C04", specs, false)
	feats := map[string]int{}
	for _, p := range sr.Progs {
		s := p.Spec
		if p.PreErr != "" {
			rep.Eval("")
			rep.Inconc("harness package does not compile: " + s.Name + ": " + firstLine(p.PreErr))
			continue
		}
		if hangVerdict(rep, "C09", p) {
			rep.Eval("")
			continue
		}
		if !p.GenOK || len(p.Band) == 0 {
			rep.Eval("")
			rep.Count("refused_by_generator_(C09's_domain)", 1)
			continue
		}
		rep.Eval(s.Name)
		for _, f := range s.Features {
			feats[strings.SplitN(f, ":", 2)[0]]++
		}
		rep.Count("generated_files_compiled", len(p.Band))
		rep.Count("injectors_generated", len(s.Injectors))
		if p.BuildErr == "" {
			if len(s.Features) > 0 {
				rep.Sample(map[string]any{"program": s.Name, "injectors": len(s.Injectors), "files": len(p.Band), "features": s.Features, "first": s.Describe(s.Injectors[0])})
			}
			continue
		}
		// classify every message; the program is a known finding only if all map to known signatures
		errs := parseCompileErrs(p.BuildErr)
		sigs := map[string]bool{}
		for _, e := range errs {
			cl := msgClass(e.Msg)
			if cl == "" {
				continue
			}
			if cl == "redeclared" {
				// the same injector name declared in two declaration files
				// of the package (each file is generated on its own)
				filesOf := map[string]map[int]bool{}
				for _, in := range s.Injectors {
					if filesOf[in.Name] == nil {
						filesOf[in.Name] = map[int]bool{}
					}
					filesOf[in.Name][in.File] = true
				}
				if f := strings.Fields(e.Msg); len(f) > 0 && len(filesOf[f[0]]) > 1 {
					cl = "injector-declared-in-two-files"
				}
			}
			kind := "user-file"
			if txt, ok := p.Band[e.File]; ok {
				ls := strings.Split(txt, "\n")
				if e.Line-1 < len(ls) && e.Line >= 1 {
					kind = stmtKind(ls[e.Line-1])
				}
			} else if e.File == "zz_expect.go" {
				continue
			}
			sigs["C04/compile/"+cl+"@"+kind] = true
		}
		if len(sigs) == 0 {
			sigs["C04/compile/unparsed"] = true
		}
		var ss []string
		for k := range sigs {
			ss = append(ss, k)
		}
		sort.Strings(ss)
		allKnown := true
		for _, k := range ss {
			if !rep.IsKnown(k) {
				allKnown = false
			}
		}
		files := p.ReplayFiles()
		files["spec.txt"] = describeAll(s)
		for _, k := range ss {
			if allKnown || !rep.IsKnown(k) {
				rep.Violate(base.Violation{Sig: k, What: fmt.Sprintf("%s (features %v): generator exited 0 but the package does not compile: %s", s.Name, s.Features, strings.ReplaceAll(strings.TrimSpace(p.BuildErr), "\n", " | ")), Files: files})
			}
		}
	}
	rep.Cov["feature_counts"] = feats
	rep.Finish()
}

func describeAll(s *spec.Spec) string {
	var b strings.Builder
	for _, in := range s.Injectors {
		b.WriteString(s.Describe(in) + "\n")
	}
	return b.String()
}

// ---------------------------------------------------------------- C10

var ctxT types.Type

func isCtx(t types.Type) bool {
	n, ok := t.(*types.Named)
	return ok && n.Obj().Pkg() != nil && n.Obj().Pkg().Path() == "context" && n.Obj().Name() == "Context"
}

func isErr(t types.Type) bool {
	return types.Identical(t, types.Universe.Lookup("error").Type())
}

func CheckC10(tier string) {
	rep := base.NewReport("C10", tier, "exploration")
	rep.Rule = "static + runnable families (context-taking providers at any position, duplicate parameter types, unneeded Async/fallible providers, requested type without supplier, several injectors/files). The emitted function's go/types signature is compared with the reference interpretation of the declaration: name; parameter multiset (types.Identical) = unsupplied needed types each once; context.Context present iff a needed provider is Async or context is itself unsupplied, first whenever a needed provider is Async; results = requested type [+ error iff a needed provider is fallible]. Non-trivial = injector with >= 1 parameter or an error result; distinct = distinct (program, injector)."
	rep.Assumptions = []string{"reference types are spelled in a helper file of the same package and resolved by the Go type checker", "signatures are read even when the function body has a compile defect"}
	specs := dynFamily(tierN(tier, 160, 2000), base.Seed()+5000, "s", staticOpts)
	specs = append(specs, dynFamily(tierN(tier, 80, 600), base.Seed()+5100, "d", func(i int, r *rand.Rand) spec.GenOpts {
		o := defaultOpts(i, r)
		o.CtxP = []float64{0.1, 0.25, 0.4}[r.Intn(3)]
		o.MultiInj = 2 + r.Intn(3)
		return o
	})...)
	specs = append(specs, isolatedFeatureSpecs(base.Seed()+5200, tierN(tier, 84, 420))...)
	specs = append(specs, corpusSpecs("C10")...)
	sr := prepareStatic("C10", specs, true)
	for _, p := range sr.Progs {
		s := p.Spec
		if p.PreErr != "" {
			rep.Inconc("harness package does not compile: " + s.Name + ": " + firstLine(p.PreErr))
			continue
		}
		if !p.GenOK || len(p.Band) == 0 {
			rep.Count("refused_by_generator_(C09's_domain)", 1)
			continue
		}
		pk := sr.Pkgs[s.Name]
		if pk == nil || pk.Types == nil {
			rep.Inconc("package not loaded: " + s.Name)
			continue
		}
		for _, in := range s.Injectors {
			ref := s.Interpret(in)
			if !ref.Valid() {
				continue
			}
			judgeC10(rep, p, pk, in, ref)
		}
	}
	rep.Finish()
}

func judgeC10(rep *base.Report, p *runner.Prog, pk *packages.Package, in *spec.Injector, ref *spec.Ref) {
	s := p.Spec
	key := ""
	if len(ref.Args) > 0 || ref.HasErr || ref.HasAsync {
		key = s.Name + "/" + in.Name
	}
	rep.Eval(key)
	fail := func(sig, what string) {
		f := p.ReplayFiles()
		f["spec.txt"] = s.Describe(in)
		rep.Violate(base.Violation{Sig: "C10/" + sig, What: s.Describe(in) + " :: " + what, Files: f})
	}
	obj := pk.Types.Scope().Lookup(in.Name)
	fn, ok := obj.(*types.Func)
	if !ok {
		fail("function-missing", "no function named "+in.Name+" in the generated package")
		return
	}
	// the function must come from a generated file
	if pos := pk.Fset.Position(fn.Pos()); !strings.HasSuffix(pos.Filename, "_band.go") {
		fail("function-missing", "function "+in.Name+" is not declared in a generated file")
		return
	}
	sig := fn.Type().(*types.Signature)
	xo := pk.Types.Scope().Lookup("xpct" + in.Name)
	if xo == nil {
		rep.Inconc("expectation type missing for " + s.Name + "." + in.Name)
		return
	}
	xs, ok := xo.Type().Underlying().(*types.Struct)
	if !ok {
		rep.Inconc("expectation type malformed")
		return
	}
	var wantRet types.Type
	var wantArgs []types.Type
	for i := 0; i < xs.NumFields(); i++ {
		if xs.Field(i).Name() == "R" {
			wantRet = xs.Field(i).Type()
		} else {
			wantArgs = append(wantArgs, xs.Field(i).Type())
		}
	}
	ctxUnsupplied := false
	for _, t := range ref.Args {
		if s.Types[t].Kind == spec.KCtx {
			ctxUnsupplied = true
		}
	}
	wantCtx := ref.HasAsync || ctxUnsupplied
	var got []types.Type
	gotCtx := 0
	ctxPos := -1
	for i := 0; i < sig.Params().Len(); i++ {
		t := sig.Params().At(i).Type()
		if isCtx(t) {
			gotCtx++
			ctxPos = i
			continue
		}
		got = append(got, t)
	}
	var probs []string
	sg := ""
	set := func(x string) {
		if sg == "" {
			sg = x
		}
	}
	if sig.Variadic() {
		probs = append(probs, "generated injector is variadic")
		set("variadic")
	}
	switch {
	case wantCtx && gotCtx == 0:
		probs = append(probs, "context.Context parameter missing")
		set("context-missing")
	case !wantCtx && gotCtx > 0:
		probs = append(probs, "context.Context parameter although no needed provider is Async and nobody needs a context")
		set("context-superfluous")
	case gotCtx > 1:
		probs = append(probs, "context.Context appears more than once")
		set("context-duplicated")
	case ref.HasAsync && ctxPos != 0:
		probs = append(probs, fmt.Sprintf("a needed provider is Async but context.Context is parameter #%d, not the first", ctxPos))
		set("context-not-first")
	}
	// multiset comparison
	used := make([]bool, len(got))
	for _, w := range wantArgs {
		found := false
		for i, g := range got {
			if !used[i] && types.Identical(g, w) {
				used[i] = true
				found = true
				break
			}
		}
		if !found {
			probs = append(probs, "missing parameter of type "+types.TypeString(w, nil))
			set("param-missing")
		}
	}
	for i, g := range got {
		if !used[i] {
			probs = append(probs, "unexpected (or duplicated) parameter of type "+types.TypeString(g, nil))
			set("param-extra")
		}
	}
	// results
	nres := sig.Results().Len()
	switch {
	case nres == 0:
		probs = append(probs, "no result")
		set("result-missing")
	case !types.Identical(sig.Results().At(0).Type(), wantRet):
		probs = append(probs, fmt.Sprintf("first result is %s, requested type is %s", sig.Results().At(0).Type(), wantRet))
		set("result-type")
	}
	gotErr := nres == 2 && isErr(sig.Results().At(1).Type())
	switch {
	case nres > 2 || (nres == 2 && !gotErr):
		probs = append(probs, "unexpected result list "+sig.Results().String())
		set("result-list")
	case ref.HasErr && !gotErr:
		probs = append(probs, "a needed provider can fail but the injector has no error result")
		set("error-result-missing")
	case !ref.HasErr && gotErr:
		probs = append(probs, "error result although no needed provider can fail")
		set("error-result-superfluous")
	}
	rep.Count("signatures_compared", 1)
	if len(probs) > 0 {
		fail(sg, fmt.Sprintf("emitted %s; %s", sig, strings.Join(probs, "; ")))
		return
	}
	if key != "" {
		rep.Sample(map[string]any{"injector": s.Describe(in), "signature": fn.Name() + strings.TrimPrefix(sig.String(), "func")})
	}
}

// ---------------------------------------------------------------- C12

func CheckC12(tier string) {
	rep := base.NewReport("C12", tier, "exploration")
	rep.Rule = "hostile naming histories (k types with one base, bases that look like suffixed names Foo0/FooCh/Err1, keyword / predeclared bases, lower-case package-level twins of would-be variable names, package names equal to local identifiers) across several injectors and files of one invocation. Oracle over the type-checked generated files: (a) any redeclaration / no-new-variable error the Go type checker places in a generated file, (b) every identifier declared by generated code (parameters, variables, channels, error variables, import names) is checked against keywords, predeclared identifiers and the user package's own package-level names, (c) import names within one generated file are pairwise distinct. Nested-scope reuse is legitimate and not flagged. Non-trivial = generated function declaring >= 3 identifiers; distinct = distinct (program, function)."
	rep.Assumptions = []string{"scopes and definitions come from go/types on the generated file as written", "the names of the generated functions themselves are chosen by the user and are not checked"}
	specs := dynFamily(tierN(tier, 260, 4000), base.Seed()+6000, "s", func(i int, r *rand.Rand) spec.GenOpts {
		o := staticOpts(i, r)
		o.Hostile = true
		o.Static = r.Intn(2) == 0
		return o
	})
	specs = append(specs, corpusSpecs("C12")...)
	sr := prepareStatic("C12", specs, true)
	for _, p := range sr.Progs {
		s := p.Spec
		if p.PreErr != "" {
			rep.Inconc("harness package does not compile: " + s.Name + ": " + firstLine(p.PreErr))
			continue
		}
		if !p.GenOK || len(p.Band) == 0 {
			rep.Count("refused_by_generator_(C09's_domain)", 1)
			continue
		}
		pk := sr.Pkgs[s.Name]
		if pk == nil || pk.Types == nil {
			rep.Inconc("package not loaded: " + s.Name)
			continue
		}
		judgeC12(rep, p, pk)
	}
	rep.Finish()
}

func judgeC12(rep *base.Report, p *runner.Prog, pk *packages.Package) {
	s := p.Spec
	fail := func(sig, what string) {
		f := p.ReplayFiles()
		f["spec.txt"] = describeAll(s)
		rep.Violate(base.Violation{Sig: "C12/" + sig, What: fmt.Sprintf("%s (features %v): %s", s.Name, s.Features, what), Files: f})
	}
	// (a) type-checker errors about redeclaration inside generated files
	for _, e := range pk.Errors {
		if !strings.Contains(e.Pos, "_band.go") {
			continue
		}
		cl := msgClass(e.Msg)
		if cl == "redeclared" || cl == "no-new-variables" {
			fail("same-scope-duplicate/"+cl, e.Pos+": "+e.Msg)
		}
		if e.Kind == packages.ParseError || strings.Contains(e.Msg, "expected ") && strings.Contains(e.Msg, "found ") {
			// the generated file does not even parse: an identifier position holds a keyword
			fail("generated-file-does-not-parse", e.Pos+": "+e.Msg)
		}
	}
	// package-level names declared by the user (outside generated files)
	userLevel := map[string]string{}
	for _, name := range pk.Types.Scope().Names() {
		o := pk.Types.Scope().Lookup(name)
		pos := pk.Fset.Position(o.Pos())
		if !strings.HasSuffix(pos.Filename, "_band.go") && filepath.Base(pos.Filename) != "zz_expect.go" {
			userLevel[name] = filepath.Base(pos.Filename)
		}
	}
	for i, f := range pk.Syntax {
		fname := pk.CompiledGoFiles[i]
		if !strings.HasSuffix(fname, "_band.go") {
			continue
		}
		// (c) import names
		seenImp := map[string]string{}
		for _, im := range f.Imports {
			var name string
			if im.Name != nil {
				name = im.Name.Name
			} else if o, ok := pk.TypesInfo.Implicits[im].(*types.PkgName); ok {
				name = o.Name()
			}
			if name == "" || name == "_" || name == "." {
				continue
			}
			if prev, dup := seenImp[name]; dup {
				fail("import-name-duplicate", fmt.Sprintf("%s: imports %s and %s share the name %s", filepath.Base(fname), prev, im.Path.Value, name))
			}
			seenImp[name] = im.Path.Value
			if spec.IsKeywordOrPredeclared(name) {
				fail("import-name-predeclared", fmt.Sprintf("%s: import name %s is a predeclared identifier", filepath.Base(fname), name))
			}
			if uf, ok := userLevel[name]; ok {
				fail("import-name-vs-package-level", fmt.Sprintf("%s: import name %s equals a package-level identifier declared in %s", filepath.Base(fname), name, uf))
			}
		}
		for _, d := range f.Decls {
			fd, ok := d.(*ast.FuncDecl)
			if !ok || fd.Body == nil {
				continue
			}
			ndecl := 0
			var probs []string
			sig := ""
			// parameter/result names inside function *type* literals (func(arg0 T) (result0 U))
			// name nothing in the injector's scopes
			pureFuncTypes := map[*ast.FuncType]bool{}
			ast.Inspect(fd, func(n ast.Node) bool {
				if ft, ok := n.(*ast.FuncType); ok {
					pureFuncTypes[ft] = true
				}
				return true
			})
			delete(pureFuncTypes, fd.Type)
			ast.Inspect(fd, func(n ast.Node) bool {
				if fl, ok := n.(*ast.FuncLit); ok {
					delete(pureFuncTypes, fl.Type)
				}
				return true
			})
			ast.Inspect(fd, func(n ast.Node) bool {
				if ft, ok := n.(*ast.FuncType); ok && pureFuncTypes[ft] {
					return false
				}
				id, ok := n.(*ast.Ident)
				if !ok {
					return true
				}
				o := pk.TypesInfo.Defs[id]
				if o == nil || id == fd.Name || id.Name == "_" {
					return true
				}
				if _, isVar := o.(*types.Var); !isVar {
					return true
				}
				if v := o.(*types.Var); v.IsField() {
					return true
				}
				// identifiers inside copied user expressions (function
				// literals in provider expressions) are the user's, not generated
				if insideFuncLit(fd, id) {
					return true
				}
				ndecl++
				if spec.IsKeywordOrPredeclared(id.Name) {
					probs = append(probs, fmt.Sprintf("%s declares %q, a predeclared identifier", fd.Name.Name, id.Name))
					if sig == "" {
						sig = "predeclared"
					}
				}
				if uf, ok := userLevel[id.Name]; ok {
					hard := ""
					switch id.Name {
					case "eg", "ctx", "ch", "zero", "err":
						hard = "/hard-coded-" + id.Name
					}
					probs = append(probs, fmt.Sprintf("%s declares %q, already declared at package level in %s", fd.Name.Name, id.Name, uf))
					if sig == "" {
						sig = "package-level-name" + hard
					}
				}
				if _, ok := seenImp[id.Name]; ok {
					probs = append(probs, fmt.Sprintf("%s declares %q, which is also an import name of the file", fd.Name.Name, id.Name))
					if sig == "" {
						sig = "shadows-import-name"
					}
				}
				return true
			})
			key := ""
			if ndecl >= 3 {
				key = s.Name + "/" + fd.Name.Name
			}
			rep.Eval(key)
			rep.Count("identifiers_checked", ndecl)
			if len(probs) > 0 {
				fail(sig, strings.Join(probs, "; "))
			} else if ndecl >= 6 {
				rep.Sample(map[string]any{"program": s.Name, "function": fd.Name.Name, "identifiers_declared": ndecl, "features": s.Features})
			}
		}
	}
}

func insideFuncLit(fd *ast.FuncDecl, id *ast.Ident) bool {
	inside := false
	ast.Inspect(fd.Body, func(n ast.Node) bool {
		fl, ok := n.(*ast.FuncLit)
		if !ok {
			return true
		}
		// eg.Go(func() error {...}) closures are generated code; provider
		// literals appear as kessoku.Provide(func(...) ...)
		if fl.Pos() <= id.Pos() && id.Pos() <= fl.End() && fl.Type.Params != nil && len(fl.Type.Params.List) > 0 {
			inside = true
		}
		return true
	})
	return inside
}
