package checks

import (
	"fmt"
	"os"
	"strings"

	"vharness/internal/base"
	"vharness/internal/runner"
	"vharness/internal/spec"
)

// Smoke exercises the pipeline on a few programs (development aid).
func Smoke() {
	scratch := base.Scratch("smoke")
	cli := base.BuildCLI(scratch)
	w := runner.NewWorkspace(scratch, cli)
	var progs []*runner.Prog
	n := 12
	if v := os.Getenv("SMOKE_N"); v != "" {
		fmt.Sscan(v, &n)
	}
	for i := 0; i < n; i++ {
		s := spec.Generate(base.Seed()*1000+int64(i), fmt.Sprintf("p%04d", i), spec.GenOpts{MaxProvs: 3 + i%10, AsyncP: 0.5, ErrP: 0.2, MultiInj: 1 + i%3, Files: 1 + i%2, Ext: i%3 == 0, CtxP: 0.05})
		progs = append(progs, w.Add(s))
	}
	w.Precheck(progs)
	for _, p := range progs {
		if p.PreErr != "" {
			fmt.Println("PRECHECK FAIL", p.Spec.Name, p.PreErr)
		}
	}
	w.Generate(progs, true)
	w.Build(progs)
	for _, p := range progs {
		for _, g := range p.Gen {
			if g.Exit != 0 {
				fmt.Println("GEN FAIL", p.Spec.Name, g.Stderr)
			}
		}
		if p.BuildErr != "" {
			fmt.Println("BUILD FAIL", p.Spec.Name, p.BuildErr)
		}
	}
	bin, ok, err := w.BuildRunner(progs, "runner")
	if err != nil {
		fmt.Println(err)
		return
	}
	var scs []runner.Scenario
	for _, p := range ok {
		for _, in := range p.Spec.Injectors {
			scs = append(scs, runner.Scenario{ID: p.Spec.Name + "/" + in.Name + "/fast", Prog: p.Spec.Name, Inj: in.Name, Nonce: 77, NProv: len(p.Spec.Provs), Procs: 4})
		}
	}
	res := runner.Exec(scratch, bin, scs, 4)
	fmt.Printf("programs=%d runnable=%d scenarios=%d outcomes=%d races=%d crashes=%d lost=%d\n", len(progs), len(ok), len(scs), len(res.Outcomes), len(res.Races), len(res.Crashes), len(res.Lost))
	for _, p := range ok {
		for _, in := range p.Spec.Injectors {
			o := res.Outcomes[p.Spec.Name+"/"+in.Name+"/fast"]
			ref := p.Spec.Interpret(in)
			if o == nil {
				fmt.Println("NO OUTCOME", p.Spec.Name, in.Name)
				continue
			}
			exp := p.Spec.Eval(ref, 77, spec.Mix(0xC7, 77))
			status := "ok"
			if o.ResultH != exp.Result {
				status = "MISMATCH"
			}
			fmt.Printf("%s %s valid=%v returned=%v h=%x exp=%x err=%s setup=%s gids=%d calls=%d needed=%d %s\n", status, p.Spec.Describe(in), ref.Valid(), o.Returned, o.ResultH, exp.Result, o.ErrKind, o.SetupErr, o.Gids, len(o.Slots), len(ref.Needed), o.Panic)
		}
	}
	for _, r := range res.Races {
		fmt.Println("RACE", r.Scenario, r.Key)
	}
	for _, c := range res.Crashes {
		fmt.Println("CRASH", c.Scenario, c.Kind)
	}
}

// Diag prints why programs of the default family are refused or fail to compile.
func Diag() {
	scratch := base.Scratch("diag")
	cli := base.BuildCLI(scratch)
	w := runner.NewWorkspace(scratch, cli)
	specs := dynFamily(60, base.Seed(), "a", defaultOpts)
	b := PrepareBatch(w, scratch, specs, false)
	for _, p := range b.Progs {
		if p.PreErr != "" {
			fmt.Println("PRE", p.Spec.Name, firstLine(p.PreErr))
		}
		if !p.GenOK {
			for _, g := range p.Gen {
				if g.Exit != 0 {
					ls := strings.Split(strings.TrimSpace(g.Stderr), "\n")
					fmt.Println("GEN", p.Spec.Name, ls[len(ls)-1])
				}
			}
		}
		if p.BuildErr != "" {
			fmt.Println("BUILD", p.Spec.Name, strings.ReplaceAll(p.BuildErr, "\n", " | "))
		}
	}
	base.Cleanup()
}
