package checks

import (
	"fmt"
	"go/ast"
	"go/parser"
	"go/token"
	"math/rand"
	"regexp"
	"sort"
	"strconv"
	"strings"

	"vharness/internal/base"
	"vharness/internal/runner"
	"vharness/internal/spec"
)

func fallibleNeeded(s *spec.Spec, ref *spec.Ref) []int {
	var out []int
	for _, pid := range funcNeeded(s, ref) {
		if s.Provs[pid].Err {
			out = append(out, pid)
		}
	}
	return out
}

// errorScenarios: every needed fallible provider failing alone (exhaustive
// per injector) x timing classes x repetitions, plus random pairs/triples.
func errorScenarios(c injCase, rng *rand.Rand, reps int, leak bool) []runner.Scenario {
	s := c.P.Spec
	fn := funcNeeded(s, c.Ref)
	fall := fallibleNeeded(s, c.Ref)
	if len(fall) == 0 {
		return nil
	}
	var out []runner.Scenario
	mk := func(tag string, F []int, timing string, procs int) {
		plan := map[int]runner.Action{}
		for _, q := range fn {
			a := runner.Action{}
			switch timing {
			case "fail-first":
				a = runner.Action{DelayKind: 3, DelayUs: 1500}
			case "random":
				if rng.Intn(2) == 0 {
					a = runner.Action{DelayKind: 3, DelayUs: 200 + rng.Intn(1500)}
				}
			}
			plan[q] = a
		}
		for _, f := range F {
			a := runner.Action{Fail: true}
			if timing == "fail-last" {
				a.DelayKind, a.DelayUs = 3, 2000
			}
			plan[f] = a
		}
		out = append(out, runner.Scenario{ID: fmt.Sprintf("%s/%s/err-%s", s.Name, c.In.Name, tag), Prog: s.Name, Inj: c.In.Name, Nonce: rng.Uint64() | 1,
			NProv: len(s.Provs), Procs: procs, Plan: plan, BudgetMs: sleepBudget(plan), LeakCheck: leak})
	}
	light := isEnum(s)
	for _, f := range fall {
		timings := []string{"plain", "fail-first", "fail-last"}
		if light {
			timings = []string{"plain", "fail-last"}
		}
		for _, tm := range timings {
			n := reps
			if light || tm == "plain" {
				n = 1
			}
			for k := 0; k < n; k++ {
				mk(fmt.Sprintf("%d-%s-%d", f, tm, k), []int{f}, tm, []int{4, 2, 16}[k%3])
			}
		}
	}
	if len(fall) >= 2 && !light {
		for k := 0; k < 3; k++ {
			a, b := fall[rng.Intn(len(fall))], fall[rng.Intn(len(fall))]
			F := []int{a}
			if b != a {
				F = append(F, b)
			}
			if len(fall) >= 3 && k == 2 {
				F = append(F, fall[rng.Intn(len(fall))])
			}
			mk(fmt.Sprintf("multi%d", k), F, "random", 4)
		}
	}
	return out
}

// cancelScenarios: cancellation before the call, synchronously at the entry
// and at the exit of every needed provider (exhaustive), and asynchronously.
func cancelScenarios(c injCase, rng *rand.Rand, leak bool) []runner.Scenario {
	s := c.P.Spec
	if !c.Ref.HasAsync {
		return nil
	}
	fn := funcNeeded(s, c.Ref)
	var out []runner.Scenario
	mk := func(tag string, plan map[int]runner.Action, before bool, afterUs int, ctxErr bool) {
		if ctxErr {
			for _, q := range fn {
				a := plan[q]
				a.CtxErr = true
				plan[q] = a
			}
			tag += "-ctxerr"
		}
		out = append(out, runner.Scenario{ID: fmt.Sprintf("%s/%s/cancel-%s", s.Name, c.In.Name, tag), Prog: s.Name, Inj: c.In.Name, Nonce: rng.Uint64() | 1,
			NProv: len(s.Provs), Procs: []int{4, 2, 1}[len(out)%3], Plan: plan, CancelBefore: before, CancelAfterUs: afterUs, BudgetMs: sleepBudget(plan), LeakCheck: leak})
	}
	light := isEnum(s)
	mk("before", map[int]runner.Action{}, true, 0, false)
	if !light {
		mk("before", map[int]runner.Action{}, true, 0, true)
	}
	for i, q := range fn {
		ctxErr := i%2 == 1
		mk(fmt.Sprintf("enter-%d", q), map[int]runner.Action{q: {CancelAtEnter: true, DelayKind: 3, DelayUs: 300}}, false, 0, ctxErr)
		mk(fmt.Sprintf("exit-%d", q), map[int]runner.Action{q: {CancelAtExit: true}}, false, 0, !ctxErr && !light)
	}
	if !light {
		for k, us := range []int{40, 300, 1200} {
			plan := map[int]runner.Action{}
			for _, q := range fn {
				plan[q] = runner.Action{DelayKind: 3, DelayUs: 400 + rng.Intn(400)}
			}
			mk(fmt.Sprintf("async-%dus", us), plan, false, us, k == 1)
		}
	}
	return out
}

func gidOf(o *runner.Outcome, pid int) int64 {
	for _, sl := range o.Slots {
		if sl.Pid == pid {
			return sl.Gid
		}
	}
	return 0
}

func faultFamily(tier string, off int64, prefix string, nq, nt int) []*spec.Spec {
	specs := dynFamily(tierN(tier, nq, nt), base.Seed()+off, prefix, func(i int, r *rand.Rand) spec.GenOpts {
		o := defaultOpts(i, r)
		o.ErrP = []float64{0.3, 0.5, 0.8}[r.Intn(3)]
		o.AsyncP = []float64{0.5, 0.8, 1.0}[r.Intn(3)]
		o.CtxP = []float64{0, 0.1, 0.25}[r.Intn(3)]
		return o
	})
	f := 0.6
	if prefix == "h" {
		f = 0.15 // C08 runs every scenario with the (slow) leak monitor
	}
	specs = append(specs, enumFamilySized(tier, base.Seed()+off, "e"+prefix, 0.5, f)...)
	return specs
}

// ---------------------------------------------------------------- C06

func CheckC06(tier string) {
	rep := base.NewReport("C06", tier, "fault_enumeration")
	rep.Rule = "per injector: every needed fallible provider failing alone (exhaustive) x timing classes {plain, failure first (others slow), failure last (failing provider slow)} x repetitions (a select with both cases ready chooses randomly) x GOMAXPROCS, plus random failing pairs/triples; caller context never cancelled. Oracle over the atomic event log and the returned error: non-nil error; errors.As gives an *InjErr of a provider that was entered; no provider whose transitive dependencies include a failed provider was entered (checked up to quiescence); the call terminates. Non-trivial = the failing provider runs in a different goroutine than the caller or some other provider was still running when it failed; distinct = distinct (injector, failing set, timing)."
	rep.Assumptions = []string{"providers return their own *InjErr value; identity of the error is checked with errors.As", "dependents are judged by the reference dependency relation of the declaration"}
	specs := faultFamily(tier, 10000, "f", 60, 800)
	specs = append(specs, corpusSpecs("C06")...)
	reps := tierN(tier, 2, 4)
	run := execAtomic(rep, "C06", specs, func(c injCase, rng *rand.Rand) []runner.Scenario {
		return errorScenarios(c, rng, reps, false)
	})
	crashOf := map[string]runner.Crash{}
	for _, c := range run.Crashes {
		crashOf[c.Scenario] = c
	}
	for _, r := range run.Results {
		s := r.Case.P.Spec
		o := r.Out
		var F []int
		for pid, a := range r.Sc.Plan {
			if a.Fail {
				F = append(F, pid)
			}
		}
		sort.Ints(F)
		if c, ok := crashOf[r.Sc.ID]; ok && !strings.HasPrefix(c.Kind, "child-timeout") {
			rep.Eval(r.Sc.ID)
			rep.Violate(base.Violation{Sig: "C06/crash/" + c.Kind, What: s.Describe(r.Case.In) + " :: " + r.Sc.ID + " crashed: " + firstLine(c.Text), Files: caseFiles(r.Case, &r.Sc, nil, map[string]string{"crash.txt": c.Text})})
			continue
		}
		if o == nil {
			rep.Eval("")
			rep.Inconc("no outcome for " + r.Sc.ID)
			continue
		}
		if o.SetupErr != "" {
			rep.Eval("")
			rep.Count("not_judged_setup:"+classifySetup(o.SetupErr), 1)
			continue
		}
		entered := map[int]bool{}
		for _, sl := range o.Slots {
			entered[sl.Pid] = true
		}
		var failedEntered []int
		inGoroutine := false
		for _, f := range F {
			if entered[f] {
				failedEntered = append(failedEntered, f)
				if gidOf(o, f) != o.CallGid {
					inGoroutine = true
				}
			}
		}
		key := ""
		if inGoroutine || o.Gids > 1 {
			key = r.Sc.ID
		}
		rep.Eval(key)
		where := "failing-provider-on-caller-goroutine"
		if inGoroutine {
			where = "failing-provider-in-goroutine"
		}
		fail := func(sig, what string) {
			rep.Violate(base.Violation{Sig: "C06/" + sig, What: fmt.Sprintf("%s :: %s failing %v (entered %v): %s", s.Describe(r.Case.In), r.Sc.ID, provNames(s, F), provNames(s, failedEntered), what), Files: caseFiles(r.Case, &r.Sc, o, nil)})
		}
		switch {
		case o.Deadlock:
			fail("deadlock/"+where+"/"+parkKind(o.HangDump), "the injector never returns; parked:\n"+o.HangDump)
			continue
		case o.Unsettled || !o.Returned:
			rep.Inconc("watchdog without quiescence: " + r.Sc.ID)
			continue
		case o.Panic != "":
			fail("panic", o.Panic)
			continue
		}
		if len(failedEntered) == 0 {
			rep.Count("runs_where_no_failing_provider_was_reached", 1)
			continue
		}
		if !o.HasErrResult {
			rep.Count("not_judged_(no_error_result:_C10's_domain)", 1)
			continue
		}
		rep.Count("failing_runs_judged", 1)
		switch o.ErrKind {
		case "":
			fail("nil-error/"+where, "a provider returned an error but the injector returned a nil error")
		case "injected":
			ok := false
			for _, f := range failedEntered {
				if f == o.ErrPid {
					ok = true
				}
			}
			if !ok {
				fail("foreign-error", fmt.Sprintf("returned the error of provider %d which was not entered", o.ErrPid))
			}
		case "canceled", "deadline":
			how := "no-context-wait-on-caller-goroutine"
			if mainHasCtxSelect(r.Case.P, r.Case.In.Name) {
				how = "caller-goroutine-select-returns-ctx.Err"
			}
			fail("substitute-error/"+o.ErrKind+"/"+where+"/"+how, "the caller's context was never cancelled, yet the injector returned "+o.ErrText+" (its internal context's error) instead of the provider's error")
		default:
			fail("substitute-error/other/"+where, "returned "+o.ErrText)
		}
		// dependents of a failed provider must never be entered
		exp := s.Eval(r.Case.Ref, r.Sc.Nonce, spec.Mix(0xC7, r.Sc.Nonce))
		for _, sl := range o.Slots {
			td := r.Case.Ref.TransDeps(sl.Pid)
			for _, f := range failedEntered {
				if td[f] {
					// Every identity carries the nonce of its call. An entry whose
					// arguments are all non-zero and none of which is an identity of
					// THIS call was made by a goroutine that an earlier call left
					// behind (the known leak after an error on the caller's
					// goroutine): it says nothing about this call.
					if want, ok := exp.Args[sl.Pid]; ok && len(sl.Args) > 0 {
						foreign := true
						for i, a := range sl.Args {
							if a == 0 || (i < len(want) && a == want[i]) {
								foreign = false
							}
						}
						if foreign {
							rep.Count("entries_by_goroutines_of_an_earlier_call_(ignored)", 1)
							continue
						}
					}
					fail("dependent-entered", fmt.Sprintf("provider %s was invoked although it depends on the failed provider %s", s.Provs[sl.Pid].Fn, s.Provs[f].Fn))
				}
			}
		}
		if o.ErrKind == "injected" && key != "" {
			rep.Sample(map[string]any{"injector": s.Describe(r.Case.In), "scenario": r.Sc.ID, "failing": provNames(s, F), "returned_error_of": s.Provs[o.ErrPid].Fn, "where": where, "providers_entered": len(o.Slots)})
		}
	}
	rep.Finish()
}

func provNames(s *spec.Spec, ids []int) []string {
	var out []string
	for _, id := range ids {
		out = append(out, s.Provs[id].Fn)
	}
	return out
}

// ---------------------------------------------------------------- C07

func CheckC07(tier string) {
	rep := base.NewReport("C07", tier, "fault_enumeration")
	rep.Rule = "per injector with >= 1 needed Async provider (with and without an error result): cancellation of the caller's context before the call, synchronously inside the entry hook and inside the exit hook of every needed provider (exhaustive), and asynchronously after 40/300/1200 us while providers sleep; providers either ignore cancellation or (ctxerr variants) return ctx.Err() when they are fallible. Oracle: the call returns (non-return judged only by goroutine dumps), and if it reports no error (nil, or no error result) the result identity equals the reference identity of a completely constructed value. Non-trivial = cancellation hit while >= 1 goroutine of the call was alive or before the call; distinct = distinct (injector, cancel point)."
	rep.Assumptions = []string{"every provider returns (it only sleeps)", "a complete result is recognised by its identity hash, which depends on every needed provider's output"}
	specs := faultFamily(tier, 11000, "g", 60, 800)
	specs = append(specs, corpusSpecs("C07")...)
	run := execAtomic(rep, "C07", specs, func(c injCase, rng *rand.Rand) []runner.Scenario {
		return cancelScenarios(c, rng, false)
	})
	crashOf := map[string]runner.Crash{}
	for _, c := range run.Crashes {
		crashOf[c.Scenario] = c
	}
	for _, r := range run.Results {
		s := r.Case.P.Spec
		o := r.Out
		if c, ok := crashOf[r.Sc.ID]; ok && !strings.HasPrefix(c.Kind, "child-timeout") {
			rep.Eval(r.Sc.ID)
			rep.Violate(base.Violation{Sig: "C07/crash/" + c.Kind, What: s.Describe(r.Case.In) + " :: " + r.Sc.ID + " crashed: " + firstLine(c.Text), Files: caseFiles(r.Case, &r.Sc, nil, map[string]string{"crash.txt": c.Text})})
			continue
		}
		if o == nil {
			rep.Eval("")
			rep.Inconc("no outcome for " + r.Sc.ID)
			continue
		}
		if o.SetupErr != "" {
			rep.Eval("")
			rep.Count("not_judged_setup:"+classifySetup(o.SetupErr), 1)
			continue
		}
		rep.Eval(r.Sc.ID)
		errRes := "no-error-result"
		if r.Case.Ref.HasErr {
			errRes = "has-error-result"
		}
		point := cancelPoint(r.Sc.ID)
		fail := func(sig, what string) {
			rep.Violate(base.Violation{Sig: "C07/" + sig, What: fmt.Sprintf("%s :: %s: %s", s.Describe(r.Case.In), r.Sc.ID, what), Files: caseFiles(r.Case, &r.Sc, o, nil)})
		}
		switch {
		case o.Deadlock:
			fail("deadlock/"+errRes+"/"+parkKind(o.HangDump), "context cancelled ("+point+") and every provider returned, but the injector never returns; parked:\n"+o.HangDump)
			continue
		case o.Unsettled || !o.Returned:
			rep.Inconc("watchdog without quiescence: " + r.Sc.ID)
			continue
		case o.Panic != "":
			fail("panic", o.Panic)
			continue
		}
		rep.Count("cancel_runs_judged", 1)
		if o.ErrKind != "" {
			rep.Count("returned_error", 1)
			continue // a non-nil error is an allowed outcome
		}
		exp := s.Eval(r.Case.Ref, r.Sc.Nonce, spec.Mix(0xC7, r.Sc.Nonce))
		if o.ResultNil || o.ResultH != exp.Result {
			kind := "zero-value"
			if o.ResultH != 0 && !o.ResultNil {
				kind = "partial-value"
			}
			fail("silent-partial/"+errRes+"/"+kind, fmt.Sprintf("context cancelled (%s); the injector reported no error but returned identity %x (nil=%v), a completely constructed result has %x", point, o.ResultH, o.ResultNil, exp.Result))
			continue
		}
		rep.Count("returned_complete_result", 1)
		rep.Sample(map[string]any{"injector": s.Describe(r.Case.In), "scenario": r.Sc.ID, "outcome": "complete result, no error", "providers_entered": len(o.Slots)})
	}
	rep.Finish()
}

func cancelPoint(id string) string {
	if i := strings.Index(id, "/cancel-"); i >= 0 {
		p := id[i+8:]
		for _, k := range []string{"before", "enter", "exit", "async"} {
			if strings.HasPrefix(p, k) {
				return k
			}
		}
	}
	return "?"
}

// ---------------------------------------------------------------- C08

func CheckC08(tier string) {
	rep := base.NewReport("C08", tier, "exploration")
	rep.Rule = "union of C06's failure scenarios, C07's cancellation scenarios and fault-free schedules, each followed by the goroutine monitor: after the injector returned, goroutines with a frame in the generated file are polled; once every entered provider has exited, a goroutine parked (chan receive / select / semacquire) at identical frames in two dumps 200 ms apart, with nothing of the call runnable and no further action by the caller (in particular no cancel), is leaked forever. Non-trivial = a goroutine of the call was still alive when the injector returned; distinct = distinct (injector, scenario)."
	rep.Assumptions = []string{"goroutines are attributed to a call by a frame in the program's *_band.go", "the caller performs no further action after return (no cancel)"}
	specs := faultFamily(tier, 12000, "h", 50, 800)
	specs = append(specs, corpusSpecs("C08")...)
	run := execAtomic(rep, "C08", specs, func(c injCase, rng *rand.Rand) []runner.Scenario {
		var out []runner.Scenario
		out = append(out, errorScenarios(c, rng, 1, true)...)
		out = append(out, cancelScenarios(c, rng, true)...)
		s := c.P.Spec
		if goroutinesInBand(c.P, c.In.Name) > 0 {
			out = append(out, runner.Scenario{ID: fmt.Sprintf("%s/%s/ok-fast", s.Name, c.In.Name), Prog: s.Name, Inj: c.In.Name, Nonce: rng.Uint64() | 1, NProv: len(s.Provs), Procs: 4, LeakCheck: true})
		}
		return out
	})
	alive, exited := 0, 0
	for _, r := range run.Results {
		s := r.Case.P.Spec
		o := r.Out
		if o == nil || !o.Returned || o.SetupErr != "" {
			rep.Eval("")
			continue
		}
		key := ""
		if o.AliveAtReturn > 0 {
			key = r.Sc.ID
			alive++
		}
		rep.Eval(key)
		class := "fault-free"
		switch {
		case strings.Contains(r.Sc.ID, "/err-"):
			class = "provider-error"
			for pid, a := range r.Sc.Plan {
				if a.Fail && gidOf(o, pid) != 0 {
					if gidOf(o, pid) == o.CallGid {
						class = "provider-error-on-caller-goroutine"
					} else if class == "provider-error" {
						class = "provider-error-in-goroutine"
					}
				}
			}
		case strings.Contains(r.Sc.ID, "/cancel-"):
			class = "cancel-" + cancelPoint(r.Sc.ID)
		}
		switch {
		case len(o.Leaked) > 0:
			sig := "C08/leak/" + class + "/" + leakKind(o.Leaked)
			if class == "provider-error-on-caller-goroutine" {
				// whom do the parked goroutines wait for? (read off the generated
				// text, as a description of the witness)
				sig += "/" + leakRoot(r.Case.P, r.Case.In.Name, o.Leaked)
			}
			rep.Violate(base.Violation{Sig: sig,
				What:  fmt.Sprintf("%s :: %s: the injector returned (err=%q) and every entered provider exited, but %d goroutine(s) it started stay blocked forever: %v", s.Describe(r.Case.In), r.Sc.ID, o.ErrText, len(o.Leaked), o.Leaked),
				Files: caseFiles(r.Case, &r.Sc, o, nil)})
		case o.LeakUnsettled:
			rep.Inconc("goroutines alive but not quiescent after return: " + r.Sc.ID)
		case o.AliveAtReturn > 0:
			exited++
			rep.Sample(map[string]any{"injector": s.Describe(r.Case.In), "scenario": r.Sc.ID, "goroutines_alive_at_return": o.AliveAtReturn, "all_exited_after_polls": o.ExitedAfter, "frames": o.AliveFrames})
		}
	}
	rep.Cov["calls_returning_with_live_goroutines"] = alive
	rep.Cov["of_which_all_goroutines_exited_on_their_own"] = exited
	rep.Finish()
}

var reBandLine = regexp.MustCompile(`_band\.go:(\d+)`)

// leakRoot describes, from the generated text, whom the leaked goroutines are
// waiting for: "awaits-caller-goroutine" if at least one of them is parked on a
// completion channel that only the injector's own goroutine closes (it has
// returned: nobody ever will), else "awaits-other-goroutine" (every awaited
// channel belongs to a goroutine the injector started).
func leakRoot(p *runner.Prog, inj string, leaked []string) string {
	for name, txt := range p.Band {
		fset := token.NewFileSet()
		f, err := parser.ParseFile(fset, name, txt, 0)
		if err != nil {
			continue
		}
		for _, d := range f.Decls {
			fd, ok := d.(*ast.FuncDecl)
			if !ok || fd.Name.Name != inj || fd.Body == nil {
				continue
			}
			// channels closed on the injector's own goroutine (outside any func literal)
			callerCloses := map[string]bool{}
			var walk func(n ast.Node, inLit bool)
			walk = func(n ast.Node, inLit bool) {
				ast.Inspect(n, func(x ast.Node) bool {
					switch v := x.(type) {
					case *ast.FuncLit:
						if x != n {
							walk(v.Body, true)
							return false
						}
					case *ast.RangeStmt:
						// for _, ch := range []chan struct{}{aCh, bCh} { close(ch) }
						if cl, ok := v.X.(*ast.CompositeLit); ok && !inLit {
							closes := false
							ast.Inspect(v.Body, func(y ast.Node) bool {
								if c, ok := y.(*ast.CallExpr); ok {
									if id, ok := c.Fun.(*ast.Ident); ok && id.Name == "close" {
										closes = true
									}
								}
								return true
							})
							if closes {
								for _, e := range cl.Elts {
									if id, ok := e.(*ast.Ident); ok {
										callerCloses[id.Name] = true
									}
								}
							}
						}
					case *ast.CallExpr:
						if id, ok := v.Fun.(*ast.Ident); ok && id.Name == "close" && len(v.Args) == 1 && !inLit {
							if a, ok := v.Args[0].(*ast.Ident); ok {
								callerCloses[a.Name] = true
							}
						}
					}
					return true
				})
			}
			walk(fd.Body, false)
			// channels awaited at the parked lines
			awaited := map[string]bool{}
			for _, fr := range leaked {
				m := reBandLine.FindStringSubmatch(fr)
				if m == nil {
					continue
				}
				line, _ := strconv.Atoi(m[1])
				// innermost wait statement containing the parked line
				var stmt ast.Node
				ast.Inspect(fd.Body, func(x ast.Node) bool {
					if x == nil {
						return true
					}
					from, to := fset.Position(x.Pos()).Line, fset.Position(x.End()).Line
					if line < from || line > to {
						return false
					}
					switch x.(type) {
					case *ast.RangeStmt, *ast.SelectStmt, *ast.ExprStmt:
						stmt = x
					}
					return true
				})
				if stmt == nil {
					continue
				}
				if sel, ok := stmt.(*ast.SelectStmt); ok {
					// a select inside `for _, ch := range []<-chan struct{}{...}`: the loop lists the channels
					ast.Inspect(fd.Body, func(x ast.Node) bool {
						if rs, ok := x.(*ast.RangeStmt); ok && rs.Pos() <= sel.Pos() && sel.End() <= rs.End() {
							if cl, ok := rs.X.(*ast.CompositeLit); ok {
								for _, e := range cl.Elts {
									if id, ok := e.(*ast.Ident); ok {
										awaited[id.Name] = true
									}
								}
							}
						}
						return true
					})
				}
				ast.Inspect(stmt, func(x ast.Node) bool {
					switch v := x.(type) {
					case *ast.CompositeLit:
						for _, e := range v.Elts {
							if id, ok := e.(*ast.Ident); ok {
								awaited[id.Name] = true
							}
						}
					case *ast.UnaryExpr:
						if v.Op == token.ARROW {
							if id, ok := v.X.(*ast.Ident); ok && id.Name != "ch" {
								awaited[id.Name] = true
							}
						}
					}
					return true
				})
			}
			for ch := range awaited {
				if callerCloses[ch] {
					return "awaits-caller-goroutine"
				}
			}
			if len(awaited) > 0 {
				return "awaits-other-goroutine"
			}
		}
	}
	return "awaits-unknown"
}

func leakKind(frames []string) string {
	k := map[string]bool{}
	for _, f := range frames {
		if i := strings.Index(f, "]"); i > 0 {
			k[strings.ReplaceAll(f[1:i], " ", "-")] = true
		}
	}
	var ks []string
	for x := range k {
		ks = append(ks, x)
	}
	sort.Strings(ks)
	return strings.Join(ks, "+")
}

// mainHasCtxSelect tells (from the generated text, as a description of the
// witness) whether the injector's own goroutine contains a select on a
// context's Done channel outside the eg.Go closures.
func mainHasCtxSelect(p *runner.Prog, inj string) bool {
	for name, txt := range p.Band {
		f, err := parser.ParseFile(token.NewFileSet(), name, txt, 0)
		if err != nil {
			continue
		}
		for _, d := range f.Decls {
			fd, ok := d.(*ast.FuncDecl)
			if !ok || fd.Name.Name != inj || fd.Body == nil {
				continue
			}
			found := false
			ast.Inspect(fd.Body, func(n ast.Node) bool {
				switch x := n.(type) {
				case *ast.FuncLit:
					return false
				case *ast.SelectStmt:
					ast.Inspect(x, func(m ast.Node) bool {
						if se, ok := m.(*ast.SelectorExpr); ok && se.Sel.Name == "Done" {
							found = true
						}
						return true
					})
				}
				return true
			})
			return found
		}
	}
	return false
}
