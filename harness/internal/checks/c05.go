package checks

import (
	"fmt"
	"math/rand"
	"os"
	"sort"
	"strings"

	"vharness/internal/base"
	"vharness/internal/runner"
	"vharness/internal/spec"
)

// execAtomic prepares the programs and runs atomic-mode scenarios produced
// by mk for every valid (program, injector).
func execAtomic(rep *base.Report, prop string, specs []*spec.Spec, mk func(c injCase, rng *rand.Rand) []runner.Scenario) *ffRun {
	scratch := base.Scratch(prop)
	cli := base.BuildCLI(scratch)
	w := runner.NewWorkspace(scratch, cli)
	out := &ffRun{ScByID: map[string]*ffResult{}}
	rng := rand.New(rand.NewSource(base.Seed()*11 + 5))
	const batchSize = 120
	for i := 0; i < len(specs); i += batchSize {
		j := min(i+batchSize, len(specs))
		b := PrepareBatch(w, scratch, specs[i:j], true)
		cases := validCases(rep, b)
		var scs []runner.Scenario
		byID := map[string]injCase{}
		for _, c := range cases {
			for _, sc := range mk(c, rng) {
				sc.Atomic = true
				scs = append(scs, sc)
				byID[sc.ID] = c
			}
		}
		res := runner.Exec(scratch, b.Bin, scs, 8)
		out.Cases = append(out.Cases, cases...)
		out.Races = append(out.Races, res.Races...)
		out.Crashes = append(out.Crashes, res.Crashes...)
		for _, sc := range scs {
			rep.Count("entries_by_goroutines_of_an_earlier_call_(dropped)", dropForeignEntries(byID[sc.ID], &sc, res.Outcomes[sc.ID]))
			out.Results = append(out.Results, ffResult{Case: byID[sc.ID], Sc: sc, Out: res.Outcomes[sc.ID]})
		}
		rep.Count("runner_children", res.Children)
		os.Remove(b.Bin)
		base.ResetPrivateGoCache()
	}
	for i := range out.Results {
		out.ScByID[out.Results[i].Sc.ID] = &out.Results[i]
	}
	return out
}

// ---------------------------------------------------------------- C05

func CheckC05(tier string) {
	rep := base.NewReport("C05", tier, "exploration")
	rep.Rule = "declarations biased to many parameterless Async providers mixed with arguments, synchronous roots, Async providers with inputs and unneeded providers, in all declaration orders, plus the enumerated small-scope family. Barrier scenario per injector whose set S of needed parameterless Async providers has |S| >= 2: every member blocks at entry until all members have entered; every other Async provider waits on the same gate without being counted; synchronous providers run freely. Witness = the gate opened (all of S simultaneously inside, ordered by atomic sequence numbers). Refutation = the call is proven deadlocked by two identical goroutine dumps with the gate still closed. Non-trivial = |S| >= 2; distinct = distinct (injector, S)."
	rep.Assumptions = []string{"existential property: one witness execution per (injector, S) is sought; a watchdog expiry without quiescence is inconclusive", "a member sitting behind another Async provider (same goroutine, or through a synchronous provider that waits for one) can never enter while the gate is closed"}
	n := tierN(tier, 90, 1200)
	specs := dynFamily(n, base.Seed()+9000, "r", func(i int, r *rand.Rand) spec.GenOpts {
		o := defaultOpts(i, r)
		o.ManyRoots = i%2 == 0
		o.ForceAsyncRoots = i%3 != 2
		o.AsyncP = []float64{0.5, 0.8, 1.0}[r.Intn(3)]
		o.ErrP = []float64{0, 0.2}[r.Intn(2)]
		o.MaxProvs = 4 + r.Intn(14)
		return o
	})
	specs = append(specs, enumFamilySized(tier, base.Seed()+2, "er", 0.05, 0.5)...)
	specs = append(specs, corpusSpecs("C05")...)
	sizes := map[int]int{}
	run := execAtomic(rep, "C05", specs, func(c injCase, rng *rand.Rand) []runner.Scenario {
		s := c.P.Spec
		var members []int
		plan := map[int]runner.Action{}
		for _, pid := range funcNeeded(s, c.Ref) {
			p := s.Provs[pid]
			if !p.Async {
				continue
			}
			if len(p.Params) == 0 {
				members = append(members, pid)
				plan[pid] = runner.Action{Barrier: true}
			} else {
				plan[pid] = runner.Action{Gate: true}
			}
		}
		if len(members) < 2 {
			return nil
		}
		sizes[len(members)]++
		var out []runner.Scenario
		for k, procs := range []int{4, 1} {
			out = append(out, runner.Scenario{ID: fmt.Sprintf("%s/%s/barrier%d", s.Name, c.In.Name, k), Prog: s.Name, Inj: c.In.Name, Nonce: rng.Uint64() | 1,
				NProv: len(s.Provs), Procs: procs, Plan: plan, BarrierN: len(members), BudgetMs: 2500})
		}
		return out
	})
	witnessed := map[string]bool{}
	for _, r := range run.Results {
		s := r.Case.P.Spec
		o := r.Out
		var members []string
		for pid, a := range r.Sc.Plan {
			if a.Barrier {
				members = append(members, s.Provs[pid].Fn)
			}
		}
		sort.Strings(members)
		key := fmt.Sprintf("%s/%s/%v", s.Name, r.Case.In.Name, members)
		if o == nil {
			rep.Eval("")
			rep.Inconc("no outcome for " + r.Sc.ID)
			continue
		}
		if o.SetupErr != "" {
			rep.Eval("")
			rep.Count("not_judged_setup:"+classifySetup(o.SetupErr), 1)
			continue
		}
		rep.Eval(key)
		switch {
		case o.BarrierOpened && o.Returned:
			witnessed[key] = true
			rep.Count("barrier_witnesses", 1)
			// the witness: every member's entry precedes every member's exit
			maxEnter, minExit := uint64(0), ^uint64(0)
			for _, sl := range o.Slots {
				if r.Sc.Plan[sl.Pid].Barrier {
					if sl.EnterSeq > maxEnter {
						maxEnter = sl.EnterSeq
					}
					if sl.ExitSeq < minExit {
						minExit = sl.ExitSeq
					}
				}
			}
			if maxEnter > minExit {
				rep.Violate(base.Violation{Sig: "C05/harness/barrier-without-overlap", What: "barrier opened but sequence numbers show no common overlap in " + r.Sc.ID, Files: caseFiles(r.Case, &r.Sc, o, nil)})
			}
			rep.Sample(map[string]any{"injector": s.Describe(r.Case.In), "members_all_inside_simultaneously": members, "last_entry_seq": maxEnter, "first_exit_seq": minExit, "goroutines": o.Gids})
		case o.Deadlock && !o.BarrierOpened:
			var missing []string
			entered := map[int]bool{}
			for _, sl := range o.Slots {
				entered[sl.Pid] = true
			}
			for pid, a := range r.Sc.Plan {
				if a.Barrier && !entered[pid] {
					missing = append(missing, s.Provs[pid].Fn)
				}
			}
			sort.Strings(missing)
			rep.Violate(base.Violation{Sig: "C05/serialized/" + parkKind(o.HangDump),
				What:  fmt.Sprintf("%s :: parameterless Async providers %v can never be inside their functions at the same time: %v never start while the others (and every other Async provider) are still running; parked:\n%s", s.Describe(r.Case.In), members, missing, o.HangDump),
				Files: caseFiles(r.Case, &r.Sc, o, nil)})
		case o.Returned && !o.BarrierOpened:
			// returned although members never all entered: some member was not invoked at all
			rep.Violate(base.Violation{Sig: "C05/member-not-invoked", What: s.Describe(r.Case.In) + " :: returned without every parameterless Async provider entering (" + strings.Join(members, ",") + ")", Files: caseFiles(r.Case, &r.Sc, o, nil)})
		default:
			rep.Inconc("barrier scenario neither opened nor provably deadlocked: " + r.Sc.ID)
		}
	}
	rep.Cov["barrier_set_sizes"] = sizes
	rep.Cov["injector_sets_witnessed"] = len(witnessed)
	rep.Finish()
}
