package checks

import (
	"fmt"
	"go/ast"
	"go/parser"
	"go/token"
	"math/rand"
	"os"
	"path/filepath"
	"regexp"
	"sort"
	"strings"
	"syscall"
	"time"

	"vharness/internal/base"
	"vharness/internal/runner"
	"vharness/internal/spec"
)

type fileID struct {
	Exists bool
	Sha    string
	Mtime  time.Time
	Ino    uint64
	Size   int64
}

func statFile(p string) fileID {
	st, err := os.Stat(p)
	if err != nil {
		return fileID{}
	}
	b, _ := os.ReadFile(p)
	id := fileID{Exists: true, Sha: base.Sha(b), Mtime: st.ModTime(), Size: st.Size()}
	if s, ok := st.Sys().(*syscall.Stat_t); ok {
		id.Ino = s.Ino
	}
	return id
}

func CheckC09(tier string) {
	rep := base.NewReport("C09", tier, "exploration")
	rep.Rule = "valid declarations from the static and runnable families (acceptance side: exit 0 and exactly one generated function per declaration, with the declared names), and for each of them every applicable planted defect in its first injector: back edge (direct, self-loop, through Bind, through a Struct field, through a second result), duplicate supplier (two providers, provider vs Bind, provider vs field, fields of two structs, two fields of one struct; needed or not), Struct expansion without a source; each with the output file absent before and with a stale previous output before. Refusal oracle: exit status != 0, diagnostic names the types involved, output file neither created nor modified (content hash, mtime, inode). Non-trivial = planted declaration; distinct = distinct (base, defect kind, prior output state)."
	rep.Assumptions = []string{"a planted declaration differs from a valid one by exactly one edit, and the reference interpreter confirms it is invalid by the documented rules", "type names in diagnostics are matched by the distinctive identifier of the type"}
	scratch := base.Scratch("C09")
	cli := base.BuildCLI(scratch)
	w := runner.NewWorkspace(scratch, cli)
	nb := tierN(tier, 60, 700)
	specs := dynFamily(nb/2, base.Seed()+7000, "v", defaultOpts)
	specs = append(specs, dynFamily(nb/2, base.Seed()+7100, "w", func(i int, r *rand.Rand) spec.GenOpts {
		o := staticOpts(i, r)
		o.Hostile = false
		return o
	})...)
	specs = append(specs, corpusSpecs("C09")...)
	// acceptance side, continued: valid declarations that also list cycles
	// which nothing reachable from the requested type depends on
	{
		ur := rand.New(rand.NewSource(base.Seed()*53 + 9))
		k := 0
		for _, s := range specs {
			if k >= tierN(tier, 24, 200) {
				break
			}
			if !strings.HasPrefix(s.Name, "v") || len(s.Injectors) == 0 || s.InvMode != "" || !s.Interpret(s.Injectors[0]).Valid() {
				continue
			}
			specs = append(specs, s.WithUnreachableCycles(fmt.Sprintf("u%s", s.Name), ur))
			k++
		}
	}
	var progs []*runner.Prog
	for _, s := range specs {
		progs = append(progs, w.Add(s))
	}
	w.Precheck(progs)
	var gen []*runner.Prog
	for _, p := range progs {
		if p.PreErr != "" {
			rep.Inconc("harness package does not compile: " + p.Spec.Name + ": " + firstLine(p.PreErr))
			continue
		}
		gen = append(gen, p)
	}
	w.Generate(gen, true)
	// ---- acceptance side
	for _, p := range gen {
		s := p.Spec
		allValid := true
		for _, in := range s.Injectors {
			if !s.Interpret(in).Valid() {
				allValid = false
			}
		}
		if !allValid {
			continue
		}
		rep.Eval("accept/" + s.Name)
		rep.Count("valid_declarations_run", len(s.Injectors))
		if hangVerdict(rep, "C09", p) {
			continue
		}
		if !p.GenOK {
			msg := ""
			for _, g := range p.Gen {
				if g.Exit != 0 {
					msg = lastLine(g.Stderr)
				}
			}
			rep.Violate(base.Violation{Sig: "C09/valid-refused/" + refusalClass(msg), What: fmt.Sprintf("%s: valid declaration refused: %s :: %s", s.Name, msg, describeAll(s)), Files: withSpec(p)})
			continue
		}
		// exactly one function per declaration, with the declared names
		got := map[string]int{}
		for name, txt := range p.Band {
			f, err := parser.ParseFile(token.NewFileSet(), name, txt, 0)
			if err != nil {
				rep.Violate(base.Violation{Sig: "C09/output-unparsable", What: s.Name + ": " + err.Error(), Files: withSpec(p)})
				continue
			}
			for _, d := range f.Decls {
				if fd, ok := d.(*ast.FuncDecl); ok && fd.Recv == nil {
					got[fd.Name.Name]++
				}
			}
		}
		var probs []string
		for _, in := range s.Injectors {
			if got[in.Name] != 1 {
				probs = append(probs, fmt.Sprintf("declaration %s has %d generated functions", in.Name, got[in.Name]))
			}
			delete(got, in.Name)
		}
		for n := range got {
			probs = append(probs, "undeclared function "+n+" emitted")
		}
		if len(probs) > 0 {
			sort.Strings(probs)
			rep.Violate(base.Violation{Sig: "C09/functions-per-declaration", What: s.Name + ": " + strings.Join(probs, "; "), Files: withSpec(p)})
		}
	}
	// ---- refusal side
	type plantedProg struct {
		base *runner.Prog
		pl   spec.Planted
		prog *runner.Prog
		st   string // absent | stale
	}
	var pps []*plantedProg
	rng := rand.New(rand.NewSource(base.Seed()*13 + 7))
	for _, p := range gen {
		if !p.GenOK || len(p.Band) == 0 {
			continue
		}
		pls := p.Spec.PlantAll(rng)
		for k, pl := range pls {
			st := []string{"absent", "stale"}[(k+len(pps))%2]
			pl.Spec.Name = fmt.Sprintf("%sx%d", p.Spec.Name, k)
			pl.Spec.PkgName = pl.Spec.Name
			pp := &plantedProg{base: p, pl: pl, st: st}
			pp.prog = w.Add(pl.Spec)
			pps = append(pps, pp)
		}
	}
	var all []*runner.Prog
	for _, pp := range pps {
		all = append(all, pp.prog)
	}
	w.Precheck(all)
	kinds := map[string]int{}
	base.Parallel(len(pps), 16, func(i int) {
		pp := pps[i]
		s := pp.pl.Spec
		if pp.prog.PreErr != "" {
			rep.Inconc("harness planted package does not compile: " + s.Name + " (" + pp.pl.Kind + "): " + firstLine(pp.prog.PreErr))
			return
		}
		// the output file of the declaration file holding injector 0
		declFile := s.Files[s.Injectors[0].File]
		outPath := filepath.Join(pp.prog.Dir, runner.BandName(declFile))
		if pp.st == "stale" {
			old := pp.base.Band[runner.BandName(declFile)]
			old = strings.Replace(old, "package "+pp.base.Spec.PkgName, "package "+s.PkgName, 1)
			os.WriteFile(outPath, []byte(old), 0o644)
			past := time.Now().Add(-2 * time.Hour)
			os.Chtimes(outPath, past, past)
		}
		before := statFile(outPath)
		w.GenerateOne(pp.prog, true)
		after := statFile(outPath)
		rep.Eval(fmt.Sprintf("%s/%s/%s", pp.base.Spec.Name, pp.pl.Kind, pp.st))
		var stderr string
		exit0 := true
		for _, g := range pp.prog.Gen {
			stderr += g.Stderr
			if g.Exit != 0 {
				exit0 = false
			}
		}
		var probs []string
		sig := ""
		set := func(x string) {
			if sig == "" {
				sig = x
			}
		}
		if exit0 {
			probs = append(probs, "exit status 0")
			set("accepted")
		} else {
			diag := diagnosticLines(stderr)
			for _, grp := range pp.pl.Names {
				if len(grp) == 0 {
					continue
				}
				found := false
				for _, n := range grp {
					if n != "" && strings.Contains(diag, n) {
						found = true
					}
				}
				if !found {
					probs = append(probs, fmt.Sprintf("diagnostic %q names none of %v", lastLine(stderr), grp))
					set("diagnostic-does-not-name-types")
				}
			}
		}
		if before != after {
			if !before.Exists {
				probs = append(probs, "output file created")
				set("output-created")
			} else {
				probs = append(probs, fmt.Sprintf("stale output file modified (%+v -> %+v)", before, after))
				set("output-modified")
			}
		}
		if len(probs) > 0 {
			f := withSpec(pp.prog)
			f["planted.txt"] = pp.pl.Kind + ": " + pp.pl.Note + "\nprior output: " + pp.st + "\n"
			rep.Violate(base.Violation{Sig: "C09/" + pp.pl.Kind + "/" + sig, What: fmt.Sprintf("%s planted %s (%s), prior output %s: %s :: %s", s.Name, pp.pl.Kind, pp.pl.Note, pp.st, strings.Join(probs, "; "), s.Describe(s.Injectors[0])), Files: f})
			return
		}
		rep.Count("planted:"+pp.pl.Kind, 1)
		_ = kinds
		rep.Sample(map[string]any{"base": pp.base.Spec.Name, "planted": pp.pl.Kind, "note": pp.pl.Note, "prior_output": pp.st, "diagnostic": lastLine(stderr)})
	})
	rep.Finish()
}

func withSpec(p *runner.Prog) map[string]string {
	f := p.ReplayFiles()
	f["spec.txt"] = describeAll(p.Spec)
	return f
}

func lastLine(s string) string {
	ls := strings.Split(strings.TrimSpace(s), "\n")
	return ls[len(ls)-1]
}

// diagnosticLines keeps the error lines of the CLI output (drops slog INFO).
func diagnosticLines(stderr string) string {
	var out []string
	for _, l := range strings.Split(stderr, "\n") {
		if strings.Contains(l, "level=INFO") || strings.Contains(l, "level=DEBUG") {
			continue
		}
		out = append(out, l)
	}
	return strings.Join(out, "\n")
}

func refusalClass(msg string) string {
	for _, k := range []string{"no initial pools found", "multiple providers", "circular dependency", "no provider for struct type", "unsupported type", "no return value provider"} {
		if strings.Contains(msg, k) {
			return strings.ReplaceAll(k, " ", "-")
		}
	}
	return "other"
}

// hangVerdict judges generator runs that were still alive at CLITimeout.
// Bounded progress, measured in processor time: a generator that has burnt
// at least half of the timeout on the CPU for a package of a few dozen lines
// (normal: a fraction of a second) is spinning -> violation, with the
// goroutine stacks it printed on SIGQUIT as the witness. One that consumed
// less was starved or blocked -> inconclusive. Returns true if p had such a run.
func hangVerdict(rep *base.Report, prop string, p *runner.Prog) bool {
	for _, g := range p.Gen {
		if !g.TimedOut {
			continue
		}
		if g.CPU < runner.CLITimeout/2 {
			rep.Inconc(fmt.Sprintf("%s: generator still running after %v with only %v of processor time", p.Spec.Name, runner.CLITimeout, g.CPU))
			return true
		}
		where := "unknown"
		// first frame of the main goroutine that belongs to the generator
		if i := strings.Index(g.Stderr, "goroutine 1 "); i >= 0 {
			blk := g.Stderr[i:]
			if j := strings.Index(blk, "\n\n"); j >= 0 {
				blk = blk[:j]
			}
			if m := regexp.MustCompile(`github\.com/mazrean/kessoku/[^\s(]*\.(\w+)\(`).FindStringSubmatch(blk); m != nil {
				where = m[1]
			}
		}
		f := withSpec(p)
		f["generator-stacks.txt"] = g.Stderr
		rep.Violate(base.Violation{Sig: prop + "/generator-does-not-terminate/" + where,
			What:  fmt.Sprintf("%s (features %v): generator neither accepts nor refuses: killed after %v having consumed %v of processor time, main goroutine in %s", p.Spec.Name, p.Spec.Features, runner.CLITimeout, g.CPU.Round(time.Second), where),
			Files: f})
		return true
	}
	return false
}
