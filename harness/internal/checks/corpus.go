package checks

import "vharness/internal/spec"

// corpusSpecs returns the fixed regression declarations that run at every
// seed for the given property.
func corpusSpecs(prop string) []*spec.Spec {
	return nil
}
