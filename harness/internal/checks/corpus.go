package checks

import (
	"fmt"
	"strings"

	"vharness/internal/spec"
)

// builder: a small API for hand-written declarations of the fixed corpus.
type builder struct{ s *spec.Spec }

func newBuilder(name string) *builder {
	return &builder{s: &spec.Spec{Name: name, PkgName: name, Dynamic: true, Files: []string{"kessoku.go"}, Seed: int64(len(name)) * 7919}}
}

func (b *builder) ext(dir, name, alias string) string {
	b.s.ExtPkgs = append(b.s.ExtPkgs, spec.ExtPkg{Dir: dir, Name: name, Alias: alias})
	return dir
}

func (b *builder) typ(t *spec.Type) int {
	t.ID = len(b.s.Types)
	if t.Kind != spec.KPtr && t.Kind != spec.KSlice && t.Kind != spec.KMap && t.Kind != spec.KFunc && t.Kind != spec.KArray {
		t.Base = -1
	}
	b.s.Types = append(b.s.Types, t)
	return t.ID
}

func (b *builder) strct(name, pkg string) int {
	return b.typ(&spec.Type{Kind: spec.KStruct, Name: name, Pkg: pkg})
}
func (b *builder) ptr(base int) int { return b.typ(&spec.Type{Kind: spec.KPtr, Base: base}) }
func (b *builder) nint(name, pkg string) int {
	return b.typ(&spec.Type{Kind: spec.KNamedInt, Name: name, Pkg: pkg})
}
func (b *builder) nstr(name, pkg string) int {
	return b.typ(&spec.Type{Kind: spec.KNamedStr, Name: name, Pkg: pkg})
}
func (b *builder) iface(name string) int { return b.typ(&spec.Type{Kind: spec.KIface, Name: name}) }

func (b *builder) field(st int, name string, t int) {
	b.s.Types[st].Fields = append(b.s.Types[st].Fields, spec.Field{Name: name, T: t})
}

func (b *builder) fn(name, pkg string, params []int, results []int, async, err bool) int {
	p := &spec.Prov{ID: len(b.s.Provs), Kind: spec.PFunc, Fn: name, Pkg: pkg, Params: params, Results: results, Async: async, Err: err}
	b.s.Provs = append(b.s.Provs, p)
	return p.ID
}

func (b *builder) expand(t int) int {
	p := &spec.Prov{ID: len(b.s.Provs), Kind: spec.PStruct, Results: []int{t}}
	b.s.Provs = append(b.s.Provs, p)
	return p.ID
}

func (b *builder) inject(name string, ret int, provs ...int) {
	var items []spec.Item
	for _, p := range provs {
		items = append(items, spec.Item{Prov: p})
	}
	b.s.Injectors = append(b.s.Injectors, &spec.Injector{Name: name, Ret: ret, Items: items})
}

// twinConfigs: two sibling packages each with a struct called Config whose
// fields carry the same names; both are expanded in one declaration.
func twinConfigs(name string, altAliases bool) *spec.Spec {
	b := newBuilder(name)
	db := b.ext("dbcfg", "dbcfg", "")
	ca := b.ext("cachecfg", "cachecfg", "")
	dbC, caC := b.strct("Config", db), b.strct("Config", ca)
	dbAddr, dbTO := b.nstr("Addr", db), b.nint("Timeout", db)
	caAddr, caTO := b.nstr("Addr", ca), b.nint("Timeout", ca)
	b.field(dbC, "Addr", dbAddr)
	b.field(dbC, "Timeout", dbTO)
	b.field(caC, "Addr", caAddr)
	b.field(caC, "Timeout", caTO)
	pdb, pca := b.ptr(dbC), b.ptr(caC)
	app := b.strct("App", "")
	papp := b.ptr(app)
	p1 := b.fn("NewDBConfig", db, nil, []int{pdb}, false, false)
	p2 := b.fn("NewCacheConfig", ca, nil, []int{pca}, false, true)
	e1, e2 := b.expand(pdb), b.expand(pca)
	p3 := b.fn("NewApp", "", []int{dbAddr, caTO, caAddr, dbTO}, []int{papp}, false, false)
	b.inject("InitializeApp", papp, p1, p2, e1, e2, p3)
	b.s.WireAltAliases = altAliases
	b.s.WireAllInSets = altAliases
	b.s.Features = append(b.s.Features, "twin-struct-names-across-packages")
	return b.s
}

// sameNamedPackages: providers and types from sibling packages that share
// one package name, each referenced several times, spread over both wire files.
func sameNamedPackages(name string) *spec.Spec {
	forWire := strings.HasPrefix(name, "k13") || strings.HasPrefix(name, "k14")
	b := newBuilder(name)
	u := b.ext("users/config", "config", "")
	o := b.ext("orders/config", "config", "ordersconfig")
	it := b.ext("items/config", "config", "itemsconfig")
	var provs []int
	var params []int
	for i, d := range []string{u, o, it} {
		for k := 0; k < 2; k++ {
			t := b.ptr(b.strct(fmt.Sprintf("Settings%d", k), d))
			provs = append(provs, b.fn(fmt.Sprintf("NewSettings%d", k), d, nil, []int{t}, false, i == 1))
			params = append(params, t)
		}
	}
	app := b.ptr(b.strct("App", ""))
	provs = append(provs, b.fn("NewApp", "", params, []int{app}, false, false))
	b.inject("InitializeApp", app, provs...)
	if !forWire {
		// nobody supplies the settings here: six arguments, one per package and type
		b.inject("BuildAppFromArguments", app, provs[len(provs)-1])
	}
	b.s.WireAltAliases = true
	b.s.WireAllInSets = true
	b.s.Features = append(b.s.Features, "same-named-packages-referenced-repeatedly")
	return b.s
}

// structValueAndPointer: Struct[S]() where S has a provider (or a Value) and
// *S has a provider of its own; fields must come from the supplier of S, and
// the *S provider runs only when *S itself is needed.
func structValueAndPointer(name string, ptrNeeded, async bool) *spec.Spec {
	b := newBuilder(name)
	st := b.strct("Settings", "")
	host, port := b.nstr("HostName", ""), b.nint("PortNumber", "")
	b.field(st, "Host", host)
	b.field(st, "Port", port)
	pst := b.ptr(st)
	client := b.ptr(b.strct("Client", ""))
	p1 := b.fn("LoadDefaults", "", nil, []int{st}, false, false)
	p2 := b.fn("LoadOverrides", "", nil, []int{pst}, async, true)
	e := b.expand(st)
	params := []int{host, port}
	if ptrNeeded {
		params = append(params, pst)
	}
	p3 := b.fn("NewClient", "", params, []int{client}, async, false)
	b.inject("InitClient", client, p2, e, p1, p3)
	b.s.Features = append(b.s.Features, "struct-expansion-with-separate-pointer-provider")
	return b.s
}

// foreignAliasSecondFile: two declaration files in one invocation; the second
// one needs types of a sibling package that are ALIASES declared there (bare
// and behind a pointer) as injector arguments, so the generator has to spell
// them under whatever name the import got in that file.
func foreignAliasSecondFile(name string) *spec.Spec {
	b := newBuilder(name)
	b.s.Dynamic = false
	b.s.Files = []string{"kessoku.go", "wiring1.go"}
	api := b.ext("api", "api", "")
	tok := b.strct("Token", api)
	ptok := b.ptr(tok)
	b.s.ExtDecl = map[string]string{api: "type Credential = Token\ntype Handle = *Token\n"}
	cred := b.typ(&spec.Type{Kind: spec.KRaw, Raw: "api.Credential", RawNames: []string{"Credential", "Token"}})
	pcred := b.typ(&spec.Type{Kind: spec.KRaw, Raw: "*api.Credential", RawNames: []string{"Credential", "Token"}})
	handle := b.typ(&spec.Type{Kind: spec.KRaw, Raw: "[]api.Handle", RawNames: []string{"Handle"}})
	svc := b.ptr(b.strct("Service", ""))
	gw := b.ptr(b.strct("Gateway", ""))
	p0 := b.fn("NewToken", api, nil, []int{ptok}, false, false)
	p1 := b.fn("NewService", "", []int{ptok}, []int{svc}, true, true)
	p2 := b.fn("NewGateway", "", []int{cred, handle}, []int{gw}, true, false)
	b.inject("InitService", svc, p0, p1)
	b.inject("InitGateway", gw, p2)
	b.s.Injectors[1].File = 1
	b.inject("InitCredentialPassThrough", pcred)
	b.s.Injectors[2].File = 1
	b.s.Features = append(b.s.Features, "foreign-alias-in-second-file")
	return b.s
}

// foreignThroughSibling: providers living in a sibling package "svc" hand a
// value around whose type mentions packages that no file of the main package
// imports (standard library, or two sibling packages named alike). The main
// package consumes only svc types; injectors with and without goroutines.
func foreignThroughSibling(name string, kind int, async bool, variant int) *spec.Spec {
	b := newBuilder(name)
	b.s.Dynamic = false
	b.s.NoForward = true
	svc := b.ext("svc", "svc", "")
	raw := []string{"*url.URL", "time.Duration", "map[netip.Addr]*big.Int", ""}[kind]
	var names []string
	if kind == 3 {
		u := b.ext("apps/v1", "v1", "appsv1")
		o := b.ext("core/v1", "v1", "corev1")
		pod := b.strct("Pod", o)
		dep := b.strct("Deployment", u)
		raw = "map[*" + b.s.Expr(pod, "") + "]*" + b.s.Expr(dep, "")
		names = []string{"Pod", "Deployment"}
	}
	t := b.typ(&spec.Type{Kind: spec.KRaw, Raw: raw, RawNames: names})
	res := b.ptr(b.strct("Client", svc))
	other := b.ptr(b.strct("Metrics", svc))
	app := b.ptr(b.strct("App", ""))
	p1 := b.fn("NewEndpoint", svc, nil, []int{t}, async, true)
	p2 := b.fn("NewClient", svc, []int{t}, []int{res}, async, false)
	p3 := b.fn("NewMetrics", svc, nil, []int{other}, async, false)
	p4 := b.fn("NewApp", "", []int{res, other}, []int{app}, false, false)
	// one injector per program: another injector spelling the type in its
	// signature would register the import and mask a miss in the var block
	switch variant {
	case 0:
		b.inject("InitializeApp", app, p1, p2, p3, p4)
	case 1:
		b.inject("InitializeEndpoint", t, p1) // the foreign type as requested type
	default:
		b.inject("InitializeClientFromArgument", res, p2) // ... as injector argument
	}
	b.s.Features = append(b.s.Features, fmt.Sprintf("foreign-only-through-sibling-%d", kind))
	return b.s
}

// unexportedForeign: an exported constructor of a sibling package returns an
// unexported type that another provider of that package consumes. The main
// package can pass the value on (x := svc.NewHidden()) but can never spell
// its type: variant 0 needs no spelling, variant 1 (goroutines -> var block)
// and variant 2 (nobody supplies it -> injector argument) do.
func unexportedForeign(name string, variant int) *spec.Spec {
	b := newBuilder(name)
	b.s.Dynamic = false
	b.s.NoForward = true
	svc := b.ext("svc", "svc", "")
	hid := b.ptr(b.strct("hidden", svc))
	app := b.ptr(b.strct("App", svc))
	other := b.ptr(b.strct("Other", ""))
	top := b.ptr(b.strct("Top", ""))
	p1 := b.fn("NewHidden", svc, nil, []int{hid}, variant == 1, false)
	p2 := b.fn("NewApp", svc, []int{hid}, []int{app}, false, false)
	p3 := b.fn("NewOther", "", nil, []int{other}, variant == 1, false)
	p4 := b.fn("NewTop", "", []int{app, other}, []int{top}, false, false)
	if variant == 2 {
		b.inject("InitTop", top, p2, p3, p4)
	} else {
		b.inject("InitTop", top, p1, p2, p3, p4)
	}
	b.s.Features = append(b.s.Features, fmt.Sprintf("unexported-type-of-sibling-package-%d", variant))
	return b.s
}

// setReferenceForms: the ways a declaration can mention a Set other than by a
// bare identifier. form 0: (localSet), nested (sets) and (providers) in
// parentheses - plain Go, same meaning as without them; form 1: a Set variable
// declared in a sibling package, referenced as svc.ProviderSet (the generator
// documents this as unsupported: it must still terminate, and whatever it
// emits must be one compilable function per declaration).
func setReferenceForms(name string, form int, async bool) *spec.Spec {
	b := newBuilder(name)
	cfg := b.ptr(b.strct("Config", ""))
	db := b.ptr(b.strct("Database", ""))
	cache := b.ptr(b.strct("Cache", ""))
	app := b.ptr(b.strct("App", ""))
	p1 := b.fn("NewConfig", "", nil, []int{cfg}, false, false)
	p2 := b.fn("NewDatabase", "", []int{cfg}, []int{db}, async, true)
	p3 := b.fn("NewCache", "", []int{cfg}, []int{cache}, async, false)
	p4 := b.fn("NewApp", "", []int{db, cache}, []int{app}, false, false)
	if form == 0 {
		b.s.Parens = true
		b.s.Sets = []*spec.SetDef{
			{Name: "StorageSet", Items: []spec.Item{{Prov: p2}, {Prov: p3}}},
			{Name: "BaseSet", Items: []spec.Item{{Prov: p1}, {Prov: -1, Set: "StorageSet"}}},
		}
		b.s.Injectors = append(b.s.Injectors, &spec.Injector{Name: "InitializeApp", Ret: app, Items: []spec.Item{{Prov: -1, Set: "BaseSet"}, {Prov: p4}}})
		b.s.Injectors = append(b.s.Injectors, &spec.Injector{Name: "InitializeCache", Ret: cache, Items: []spec.Item{{Prov: p1}, {Prov: -1, Inline: []spec.Item{{Prov: -1, Set: "StorageSet"}}}}})
		b.s.Features = append(b.s.Features, "set-and-provider-expressions-in-parentheses")
		return b.s
	}
	b.s.Dynamic = false
	svc := b.ext("svc", "svc", "")
	tok := b.ptr(b.strct("Token", svc))
	b.fn("NewToken", svc, nil, []int{tok}, async, false)
	gw := b.ptr(b.strct("Gateway", ""))
	p6 := b.fn("NewGateway", "", []int{tok, app}, []int{gw}, false, false)
	b.s.ExtDecl = map[string]string{svc: "var ProviderSet = kessoku.Set(kessoku.Provide(NewToken))\n"}
	b.s.Injectors = append(b.s.Injectors, &spec.Injector{Name: "InitializeGateway", Ret: gw, Items: []spec.Item{{Prov: -1, Raw: "svc.ProviderSet"}, {Prov: p1}, {Prov: p2}, {Prov: p3}, {Prov: p4}, {Prov: p6}}})
	b.s.Features = append(b.s.Features, "set-variable-of-a-sibling-package")
	return b.s
}

// shadowableNames: kessoku.Value expressions that mention package-level
// variables named like the locals the generator likes to declare (eg, err,
// zero, ch, ctx, and the lower-camel names of the provided types). Provider
// expressions are copied into the injector body, so a generated local of the
// same name in an enclosing scope would capture them: the file stops
// compiling, or - same type - the injector silently uses the wrong value.
func shadowableNames(name string, async bool, sameTypeOnly ...bool) *spec.Spec {
	b := newBuilder(name)
	var params []int
	var provs []int
	names := []string{"eg", "err", "zero", "ch", "ctx", "retries5", "app"}
	if len(sameTypeOnly) > 0 && sameTypeOnly[0] {
		// every variable is called exactly like the local the generator derives
		// from its OWN type: a capturing local has the same type, so the file
		// still compiles and only the value is wrong
		names = []string{"retries0", "retries1", "retries2", "retries3", "retries4", "retries5", "retries6"}
	}
	for i, n := range names {
		t := b.nint(fmt.Sprintf("Retries%d", i), "")
		v := uint64(1000 + i)
		b.s.ExtraDecl += fmt.Sprintf("var %s %s = %d\n", n, b.s.Types[t].Name, v)
		p := &spec.Prov{ID: len(b.s.Provs), Kind: spec.PValue, ValExpr: n, ValH: v, Results: []int{t}}
		b.s.Provs = append(b.s.Provs, p)
		provs = append(provs, p.ID)
		params = append(params, t)
	}
	db := b.ptr(b.strct("Database", ""))
	cache := b.ptr(b.strct("Cache", ""))
	app := b.ptr(b.strct("App", ""))
	provs = append(provs,
		b.fn("NewDatabase", "", params[:4], []int{db}, async, true),
		b.fn("NewCache", "", params[3:], []int{cache}, async, false),
		b.fn("NewApp", "", []int{db, cache, params[0]}, []int{app}, false, false))
	b.inject("InitializeApp", app, provs...)
	b.inject("InitializeCache", cache, provs...)
	b.s.Features = append(b.s.Features, "value-expressions-naming-package-level-variables-called-like-generated-locals")
	return b.s
}

// dotImported: the declaration file imports the providers' package with a
// dot, so provider expressions, Value expressions, the requested type and a
// function literal's parameter types are written without a qualifier.
func dotImported(name string, async bool) *spec.Spec {
	b := newBuilder(name)
	infra := b.ext("infra", "infra", "")
	cfg := b.ptr(b.strct("Settings", infra))
	db := b.ptr(b.strct("Database", infra))
	lim := b.nint("Limit", infra)
	app := b.ptr(b.strct("App", ""))
	p1 := b.fn("NewSettings", infra, nil, []int{cfg}, false, false)
	p2 := b.fn("NewDatabase", infra, []int{cfg, lim}, []int{db}, async, true)
	pv := &spec.Prov{ID: len(b.s.Provs), Kind: spec.PValue, ValExpr: "infra.Limit(42)", ValH: 42, Results: []int{lim}}
	b.s.Provs = append(b.s.Provs, pv)
	p4 := b.fn("NewApp", "", []int{db}, []int{app}, async, false)
	b.s.Sets = []*spec.SetDef{{Name: "InfraSet", Items: []spec.Item{{Prov: p1}, {Prov: p2}, {Prov: pv.ID}}}}
	b.s.Injectors = append(b.s.Injectors,
		&spec.Injector{Name: "InitializeSettings", Ret: cfg, Items: []spec.Item{{Prov: -1, Set: "InfraSet"}}},
		&spec.Injector{Name: "InitializeApp", Ret: app, Items: []spec.Item{{Prov: -1, Set: "InfraSet"}, {Prov: p4}}},
		&spec.Injector{Name: "InitializeDatabase", Ret: db, Items: []spec.Item{{Prov: p2}, {Prov: pv.ID}}})
	b.s.DotImport = infra
	b.s.Features = append(b.s.Features, "dot-imported-provider-package")
	return b.s
}

// bindVariadic: a provider whose last parameter is variadic, wrapped in
// Bind (and Async(Bind(...))); the slice comes from another provider. The
// call must spread it (args...), whatever wrapper sits around the provider.
func bindVariadic(name string, async, anyForm bool) *spec.Spec {
	b := newBuilder(name)
	sink := b.iface("Sink")
	if anyForm {
		// ...any: a slice passed unspread still compiles (one element instead of n)
		anyT := b.typ(&spec.Type{Kind: spec.KBasic, Name: "any"})
		anys := b.typ(&spec.Type{Kind: spec.KSlice, Base: anyT})
		tracer := b.strct("Tracer", "")
		b.s.Types[tracer].Impl = []int{sink}
		ptracer := b.ptr(tracer)
		svc := b.ptr(b.strct("Service", ""))
		p5 := b.fn("DefaultAttributes", "", nil, []int{anys}, async, false)
		p6 := b.fn("NewTracer", "", []int{anys}, []int{ptracer}, false, false)
		b.s.Provs[p6].Variadic = true
		b.s.Provs[p6].Binds = []int{sink}
		p7 := b.fn("NewService", "", []int{sink}, []int{svc}, async, false)
		b.inject("InitializeService", svc, p5, p6, p7)
		b.s.Features = append(b.s.Features, "variadic-any-provider-under-bind")
		return b.s
	}
	field := b.strct("Field", "")
	fields := b.typ(&spec.Type{Kind: spec.KSlice, Base: field})
	logger := b.strct("Logger", "")
	b.s.Types[logger].Impl = []int{sink}
	plogger := b.ptr(logger)
	app := b.ptr(b.strct("App", ""))
	p1 := b.fn("DefaultFields", "", nil, []int{fields}, async, false)
	p2 := b.fn("NewLogger", "", []int{fields}, []int{plogger}, async, true)
	b.s.Provs[p2].Variadic = true
	b.s.Provs[p2].Binds = []int{sink}
	p3 := b.fn("NewApp", "", []int{sink}, []int{app}, false, false)
	p4 := b.fn("NewPlainLogger", "", []int{fields}, []int{plogger}, false, false)
	b.s.Provs[p4].Variadic = true
	b.inject("InitializeApp", app, p1, p2, p3)
	b.inject("InitializeLogger", plogger, p1, p4)
	b.s.Features = append(b.s.Features, "variadic-provider-under-bind")
	return b.s
}

// aliasDeclaredFields: an expanded struct all of whose fields are declared
// through aliases (type HostAlias = HostName, type RetriesAlias = int64,
// type LookupAlias = func() Resolver): the same types under another spelling.
// Consumers ask for the target types.
func aliasDeclaredFields(name string, async bool) *spec.Spec {
	b := newBuilder(name)
	st := b.strct("Settings", "")
	host := b.nstr("HostName", "")
	retries := b.typ(&spec.Type{Kind: spec.KBasic, Name: "int64"})
	res := b.strct("Resolver", "")
	lookup := b.typ(&spec.Type{Kind: spec.KFunc, Base: res})
	for _, f := range []struct {
		n string
		t int
	}{{"Host", host}, {"Retries", retries}, {"Lookup", lookup}} {
		alias := f.n + "Alias"
		b.s.ExtraDecl += fmt.Sprintf("type %s = %s\n", alias, b.s.Expr(f.t, ""))
		b.s.Types[st].Fields = append(b.s.Types[st].Fields, spec.Field{Name: f.n, T: f.t, Alias: alias})
	}
	pst := b.ptr(st)
	client := b.ptr(b.strct("Client", ""))
	p1 := b.fn("LoadSettings", "", nil, []int{pst}, async, true)
	e := b.expand(pst)
	// the expansion names the struct through an alias of the pointer type
	b.s.ExtraDecl += "type SettingsRef = *Settings\n"
	b.s.Provs[e].TypeAlias = "SettingsRef"
	p2 := b.fn("NewClient", "", []int{host, retries, lookup}, []int{client}, async, false)
	b.inject("InitializeClient", client, p1, e, p2)
	b.s.Features = append(b.s.Features, "expanded-struct-with-alias-declared-fields")
	return b.s
}

// suffixNamedFiles: two declaration files of one package whose names are
// related by suffix (db_kessoku.go sorts before kessoku.go and ends with it).
// Whatever form the file argument takes, each file's output comes from its
// own declarations.
func suffixNamedFiles(name string, async bool) *spec.Spec {
	b := newBuilder(name)
	b.s.Files = []string{"kessoku.go", "db_kessoku.go"}
	cfg := b.ptr(b.strct("Config", ""))
	db := b.ptr(b.strct("Database", ""))
	app := b.ptr(b.strct("App", ""))
	p1 := b.fn("NewConfig", "", nil, []int{cfg}, async, false)
	p2 := b.fn("NewDatabase", "", []int{cfg}, []int{db}, async, true)
	p3 := b.fn("NewApp", "", []int{db, cfg}, []int{app}, false, false)
	b.inject("InitializeApp", app, p1, p2, p3)
	b.inject("InitializeDatabase", db, p1, p2)
	b.s.Injectors[1].File = 1
	b.s.Features = append(b.s.Features, "declaration-file-names-related-by-suffix")
	return b.s
}

// foreignCompositeKeys: Value expressions that are keyed composite literals
// of a sibling package's struct whose FIELD names coincide with package-level
// names of that package (an embedded field, a field called like its type),
// written directly and inside a called function literal. Keys are fields, not
// package members: they must stay unqualified.
func foreignCompositeKeys(name string, async bool) *spec.Spec {
	b := newBuilder(name)
	b.s.Dynamic = false
	b.s.NoForward = true
	opts := b.ext("opts", "opts", "")
	b.s.ExtDecl = map[string]string{opts: "type Level int\n\nconst LevelDebug Level = 1\n\ntype Inner struct{ N int }\n\ntype Options struct {\n\tInner\n\tLevel Level\n\tName  string\n}\n\ntype Limits struct{ Options Options }\n"}
	o := b.typ(&spec.Type{Kind: spec.KRaw, Raw: "opts.Options", RawNames: []string{"Options"}})
	l := b.typ(&spec.Type{Kind: spec.KRaw, Raw: "*opts.Limits", RawNames: []string{"Limits"}})
	app := b.ptr(b.strct("App", ""))
	pv1 := &spec.Prov{ID: len(b.s.Provs), Kind: spec.PValue, ValExpr: "opts.Options{Inner: opts.Inner{N: 7}, Level: opts.LevelDebug, Name: \"x\"}", Results: []int{o}}
	b.s.Provs = append(b.s.Provs, pv1)
	pv2 := &spec.Prov{ID: len(b.s.Provs), Kind: spec.PValue, ValExpr: "func() *opts.Limits {\n\t\tlimits := &opts.Limits{Options: opts.Options{Inner: opts.Inner{N: 1}, Level: opts.Level(2)}}\n\t\treturn limits\n\t}()", Results: []int{l}}
	b.s.Provs = append(b.s.Provs, pv2)
	p3 := b.fn("NewApp", "", []int{o, l}, []int{app}, async, false)
	other := b.ptr(b.strct("Other", ""))
	p4 := b.fn("NewOther", "", nil, []int{other}, async, false)
	top := b.ptr(b.strct("Top", ""))
	p5 := b.fn("NewTop", "", []int{app, other}, []int{top}, false, false)
	b.inject("InitializeTop", top, pv1.ID, pv2.ID, p3, p4, p5)
	b.s.Features = append(b.s.Features, "keyed-composite-literal-of-sibling-struct-with-field-names-like-package-members")
	return b.s
}

// spelledTwoWays: one type written differently at its supplier and at its
// consumers: a generic instance with an alias type argument (Box[ID] vs
// Box[string], type ID = string), a pointer to it, a map with an alias value
// type, a function type with and without parameter names. Suppliers and
// consumers must still meet; nothing becomes an extra injector argument.
func spelledTwoWays(name string, async bool) *spec.Spec {
	b := newBuilder(name)
	b.s.Dynamic = false
	b.s.ExtraDecl = "type Box[T any] struct{ V T }\n\ntype ID = string\n\ntype Count = int\n"
	box := b.typ(&spec.Type{Kind: spec.KRaw, Raw: "Box[string]", RawNames: []string{"Box"}})
	pbox := b.typ(&spec.Type{Kind: spec.KRaw, Raw: "*Box[int]", RawNames: []string{"Box"}})
	m := b.typ(&spec.Type{Kind: spec.KRaw, Raw: "map[string][]int", RawNames: nil})
	f := b.typ(&spec.Type{Kind: spec.KRaw, Raw: "func(string, int) error", RawNames: nil})
	app := b.ptr(b.strct("App", ""))
	store := b.ptr(b.strct("Store", ""))
	p1 := b.fn("NewBox", "", nil, []int{box}, async, false)
	b.s.Provs[p1].ResultSpell = []string{"Box[ID]"}
	p2 := b.fn("NewCounter", "", nil, []int{pbox, m}, async, true)
	b.s.Provs[p2].ResultSpell = []string{"*Box[Count]", "map[ID][]Count"}
	p3 := b.fn("NewLookup", "", []int{box}, []int{f}, false, false)
	b.s.Provs[p3].ResultSpell = []string{"func(key ID, n Count) error"}
	p4 := b.fn("NewStore", "", []int{box, pbox, m, f}, []int{store}, async, false)
	p5 := b.fn("NewApp", "", []int{store, box}, []int{app}, false, false)
	b.s.Provs[p5].ParamSpell = []string{"", "Box[ID]"}
	b.inject("InitializeApp", app, p1, p2, p3, p4, p5)
	b.inject("InitializeStore", store, p1, p2, p3, p4)
	// nobody supplies the box here: it is ONE argument, however it is spelled
	b.inject("InitializeFromArguments", app, p4, p5, p2, p3)
	b.s.Features = append(b.s.Features, "one-type-spelled-two-ways")
	return b.s
}

// sameLocalNameInTwoWireFiles: two further wire files of the package import
// DIFFERENT packages under the same local name (both are `package v1`), and
// mention them inside wire.Value expressions that are more than a bare
// selector: composite literals (one of them multi-line, with a nested slice
// literal), a conversion of a function literal, a nested call. The merged
// output needs one consistent alias per package at every depth.
func sameLocalNameInTwoWireFiles(name string) *spec.Spec {
	b := newBuilder(name)
	bill := b.ext("billing/v1", "v1", "billingv1")
	ship := b.ext("shipping/v1", "v1", "shippingv1")
	b.s.ExtDecl = map[string]string{
		bill: "type Options struct {\n\tCurrency string\n\tRetries  int\n}\n\ntype Client struct{ Opt Options }\n\nfunc NewClient(o Options) *Client { return &Client{Opt: o} }\n",
		ship: "type Zone string\n\ntype Limits struct {\n\tMaxKg int\n\tZones []Zone\n}\n\ntype ZonePicker func(country string) Zone\n\ntype Planner struct {\n\tLim  Limits\n\tPick ZonePicker\n}\n\nfunc NewPlanner(l Limits, p ZonePicker) *Planner { return &Planner{Lim: l, Pick: p} }\n\nfunc DefaultZone(z Zone) Zone { return z }\n",
	}
	// the identity-carrying part: one ordinary injector over both packages
	s1 := b.ptr(b.strct("Ledger", bill))
	s2 := b.ptr(b.strct("Route", ship))
	app := b.ptr(b.strct("App", ""))
	p1 := b.fn("NewLedger", bill, nil, []int{s1}, false, false)
	p2 := b.fn("NewRoute", ship, nil, []int{s2}, false, true)
	p3 := b.fn("NewApp", "", []int{s1, s2}, []int{app}, false, false)
	b.inject("InitializeApp", app, p1, p2, p3)
	b.s.ExtraWireFiles = map[string]string{
		"wire_billing.go":  "//go:build wireinject\n\npackage " + name + "\n\nimport (\n\t\"github.com/google/wire\"\n\t\"{{PKG}}/billing/v1\"\n)\n\nvar BillingSet = wire.NewSet(\n\twire.Value(v1.Options{Currency: \"EUR\", Retries: 3}),\n\tv1.NewClient,\n)\n",
		"wire_shipping.go": "//go:build wireinject\n\npackage " + name + "\n\nimport (\n\t\"strings\"\n\n\t\"github.com/google/wire\"\n\t\"{{PKG}}/shipping/v1\"\n)\n\nvar ShippingSet = wire.NewSet(\n\twire.Value(v1.Limits{\n\t\tMaxKg: 30,\n\t\tZones: []v1.Zone{\n\t\t\t\"eu\",\n\t\t\tv1.DefaultZone(v1.Zone(\"us\")),\n\t\t},\n\t}),\n\twire.Value(v1.ZonePicker(func(country string) v1.Zone {\n\t\tif strings.EqualFold(country, \"us\") {\n\t\t\treturn v1.Zone(\"us\")\n\t\t}\n\t\treturn v1.Zone(\"eu\")\n\t})),\n\tv1.NewPlanner,\n)\n",
	}
	b.s.Features = append(b.s.Features, "same-local-package-name-in-two-wire-files-inside-value-expressions")
	return b.s
}

// unicodeTypeNames: exported type names whose first letter is not ASCII
// (Überconfig, ΩService, Élan, Ñandú): the variable names derived from them
// must still be identifiers.
func unicodeTypeNames(name string, async bool) *spec.Spec {
	b := newBuilder(name)
	var params, provs []int
	for k, n := range []string{"Überconfig", "ΩService", "Élan", "ÑandúRepo", "ÆØÅStore"} {
		t := b.ptr(b.strct(n, ""))
		provs = append(provs, b.fn(fmt.Sprintf("Provide%d", k), "", nil, []int{t}, async && k%2 == 0, k%3 == 0))
		params = append(params, t)
	}
	app := b.ptr(b.strct("AppRoot", ""))
	provs = append(provs, b.fn("NewAppRoot", "", params, []int{app}, false, false))
	b.inject("InitializeAppRoot", app, provs...)
	b.inject("BuildFromArguments", app, provs[len(provs)-1])
	b.s.Features = append(b.s.Features, "type-names-starting-with-a-non-ascii-letter")
	return b.s
}

// sharedSetAliasedImport: one Set variable used by three injectors of a file.
// It holds providers of a sibling package imported under an alias; the first
// injectors need none of them (or only a main-package one), a later one does.
// The set's expressions are walked once per injector: what the later walk
// learns about imports must not depend on the earlier ones.
func sharedSetAliasedImport(name string, async bool) *spec.Spec {
	b := newBuilder(name)
	st := b.ext("storage", "storage", "st")
	audit := b.ptr(b.strct("Audit", ""))
	mem := b.ptr(b.strct("MemStore", st))
	disk := b.ptr(b.strct("DiskStore", st))
	svc := b.ptr(b.strct("Service", ""))
	p1 := b.fn("NewAudit", "", nil, []int{audit}, false, false)
	p2 := b.fn("OpenMem", st, nil, []int{mem}, async, false)
	p3 := b.fn("OpenDisk", st, nil, []int{disk}, async, true)
	p4 := b.fn("NewService", "", []int{audit, mem, disk}, []int{svc}, false, false)
	b.s.Sets = []*spec.SetDef{{Name: "CommonSet", Items: []spec.Item{{Prov: p1}, {Prov: p2}, {Prov: p3}}}}
	b.s.Injectors = append(b.s.Injectors,
		&spec.Injector{Name: "InitializeAudit", Ret: audit, Items: []spec.Item{{Prov: -1, Set: "CommonSet"}}},
		&spec.Injector{Name: "InitializeAuditAgain", Ret: audit, Items: []spec.Item{{Prov: -1, Set: "CommonSet"}}},
		// no signature and (without goroutines) no variable block mentions the
		// sibling package here: only the copied provider expressions do
		&spec.Injector{Name: "InitializeService", Ret: svc, Items: []spec.Item{{Prov: -1, Set: "CommonSet"}, {Prov: p4}}})
	b.s.Features = append(b.s.Features, "set-with-aliased-sibling-providers-shared-by-injectors")
	return b.s
}

// localNameEqualsForeignPackage: the wire package declares an identifier
// (type config) that equals the NAME of a sibling package, which is therefore
// imported under an alias (cfgpkg). The injector's result type comes from that
// package and the providers sit in a set of the second wire file: the alias
// must be used everywhere, or the output collides with the local identifier.
func localNameEqualsForeignPackage(name string) *spec.Spec {
	b := newBuilder(name)
	cfg := b.ext("config", "config", "cfgpkg")
	b.s.ExtraDecl = "type config struct{ local bool }\n\nvar _ = config{}\n"
	opts := b.ptr(b.strct("Options", cfg))
	lim := b.nint("Limit", "")
	p1 := b.fn("DefaultLimit", "", nil, []int{lim}, false, false)
	p2 := b.fn("NewOptions", cfg, nil, []int{opts}, false, true)
	app := b.ptr(b.strct("App", ""))
	p3 := b.fn("NewApp", "", []int{opts, lim}, []int{app}, false, false)
	b.inject("InitializeOptions", opts, p2)
	b.inject("InitializeApp", app, p1, p2, p3)
	b.s.WireAllInSets = true
	b.s.Features = append(b.s.Features, "local-identifier-named-like-an-aliased-sibling-package")
	return b.s
}

// structOfSameNamedPackage: wire.Struct on a struct of items/store, which the
// wire file imports under an alias, while the plain local name `store` means
// users/store there (and a third orders/store exists). The constructor that
// migrate writes must spell items/store's types with items/store's alias, not
// with whatever `store` means in the source file.
func structOfSameNamedPackage(name string) *spec.Spec {
	b := newBuilder(name)
	items := b.ext("items/store", "store", "itemsstore")
	orders := b.ext("orders/store", "store", "ordersstore")
	users := b.ext("users/store", "store", "")
	cfg := b.typ(&spec.Type{Kind: spec.KStruct, Name: "Config", Pkg: items, Pure: true})
	asm := &spec.Prov{ID: len(b.s.Provs), Kind: spec.PAssemble, AsmFields: []string{"*"}}
	b.s.Provs = append(b.s.Provs, asm)
	var provs []int
	for i, n := range []string{"Router", "Clock", "Storage"} {
		ft := b.nint(n, items)
		v := uint64(11100 + i)
		pv := &spec.Prov{ID: len(b.s.Provs), Kind: spec.PValue, ValExpr: fmt.Sprintf("%s(%d)", b.s.Expr(ft, ""), v), ValH: v, Results: []int{ft}}
		b.s.Provs = append(b.s.Provs, pv)
		provs = append(provs, pv.ID)
		b.s.Types[cfg].Fields = append(b.s.Types[cfg].Fields, spec.Field{Name: fmt.Sprintf("E%dConfig", i), T: ft})
		asm.Params = append(asm.Params, ft)
	}
	pcfg := b.ptr(cfg)
	asm.Results = []int{pcfg}
	pool := b.nstr("Pool", users)
	repo := b.ptr(b.strct("OrderRepo", orders))
	p1 := b.fn("NewOrderRepo", orders, nil, []int{repo}, false, false)
	p2 := b.fn("NewPool", "", []int{pcfg, repo}, []int{pool}, false, true)
	b.inject("InitializePool", pool, append(provs, asm.ID, p1, p2)...)
	b.s.WireNoSets = true
	b.s.Features = append(b.s.Features, "wire-struct-of-a-package-whose-name-means-another-package-in-the-wire-file")
	return b.s
}

// resultTypeShapes: one injector per kind of requested type, each with two
// Async providers one of which can fail, so that the goroutine error branch
// (zero value + error) is emitted for arrays, named arrays, struct values,
// named basics, anonymous structs, maps, funcs and slices alike.
func resultTypeShapes(name string) *spec.Spec {
	b := newBuilder(name)
	el := b.strct("Digest", "")
	kinds := []int{
		b.typ(&spec.Type{Kind: spec.KArray, Base: el}),
		el,
		b.nint("Count", ""),
		b.nstr("Label", ""),
		b.typ(&spec.Type{Kind: spec.KAnon, Name: "HShape"}),
		b.typ(&spec.Type{Kind: spec.KMap, Base: el}),
		b.typ(&spec.Type{Kind: spec.KFunc, Base: el}),
		b.typ(&spec.Type{Kind: spec.KSlice, Base: el}),
		b.ptr(el),
	}
	for k, t := range kinds {
		a := b.ptr(b.strct(fmt.Sprintf("SourceA%d", k), ""))
		c := b.ptr(b.strct(fmt.Sprintf("SourceB%d", k), ""))
		p1 := b.fn(fmt.Sprintf("OpenA%d", k), "", nil, []int{a}, true, true)
		p2 := b.fn(fmt.Sprintf("OpenB%d", k), "", nil, []int{c}, true, false)
		p3 := b.fn(fmt.Sprintf("Combine%d", k), "", []int{a, c}, []int{t}, true, k%2 == 0)
		b.inject(fmt.Sprintf("Initialize%d", k), t, p1, p2, p3)
	}
	b.s.Features = append(b.s.Features, "every-kind-of-requested-type-behind-goroutines-that-can-fail")
	return b.s
}

// crossFileNames: two declaration files generated by separate runs. The
// output of the second (goroutines: imports context and errgroup, declares
// eg/ctx locals) must not influence the names chosen for the first, whose user
// types are called Context and Errgroup.
func crossFileNames(name string) *spec.Spec {
	b := newBuilder(name)
	b.s.Files = []string{"kessoku.go", "wiring1.go"}
	cx := b.ptr(b.strct("Context", ""))
	eg := b.ptr(b.strct("Errgroup", ""))
	app := b.ptr(b.strct("App", ""))
	p1 := b.fn("NewContext", "", nil, []int{cx}, false, false)
	p2 := b.fn("NewErrgroup", "", []int{cx}, []int{eg}, false, true)
	p3 := b.fn("NewApp", "", []int{cx, eg}, []int{app}, false, false)
	b.inject("InitializeApp", app, p1, p2, p3)
	w1 := b.ptr(b.strct("Worker", ""))
	w2 := b.ptr(b.strct("Queue", ""))
	svc := b.ptr(b.strct("Service", ""))
	p4 := b.fn("NewWorker", "", nil, []int{w1}, true, true)
	p5 := b.fn("NewQueue", "", nil, []int{w2}, true, false)
	p6 := b.fn("NewService", "", []int{w1, w2}, []int{svc}, true, false)
	b.inject("InitializeService", svc, p4, p5, p6)
	b.s.Injectors[1].File = 1
	b.s.InvMode = "per"
	b.s.Features = append(b.s.Features, "names-of-one-file-colliding-with-imports-of-another-files-output")
	return b.s
}

// sameNamedArguments: nobody supplies the settings types of three sibling
// packages that share their package name AND their type names: the injector
// takes six arguments, one per (package, type).
func sameNamedArguments(name string) *spec.Spec {
	b := newBuilder(name)
	b.s.Dynamic = false
	var params []int
	for _, d := range []string{b.ext("users/config", "config", ""), b.ext("orders/config", "config", "ordersconfig"), b.ext("items/config", "config", "itemsconfig")} {
		for k := 0; k < 2; k++ {
			params = append(params, b.ptr(b.strct(fmt.Sprintf("Settings%d", k), d)))
		}
	}
	app := b.ptr(b.strct("App", ""))
	p := b.fn("NewApp", "", params, []int{app}, false, false)
	b.inject("BuildAppFromArguments", app, p)
	b.s.Features = append(b.s.Features, "same-named-types-of-same-named-packages-as-arguments")
	return b.s
}

// injectorNameForms: declarations whose injector name cannot become a
// package-level function: used twice in one file (0) or in two files of one
// package (4), equal to a function the user wrote (1), a keyword (2), not an
// identifier (3), init (5). The generator may refuse them; what it must not
// do is exit 0 and write a file that breaks the package.
func injectorNameForms(name string, kind int) *spec.Spec {
	b := newBuilder(name)
	b.s.Dynamic = false
	cfg := b.ptr(b.strct("Config", ""))
	app := b.ptr(b.strct("App", ""))
	p1 := b.fn("NewConfig", "", nil, []int{cfg}, false, false)
	p2 := b.fn("NewApp", "", []int{cfg}, []int{app}, kind%2 == 0, false)
	second := []string{"InitializeApp", "ExistingHelper", "type", "initialize app", "InitializeApp", "init"}[kind]
	b.inject("InitializeApp", app, p1, p2)
	b.inject(second, cfg, p1)
	if kind == 1 {
		b.s.ExtraDecl = "func ExistingHelper() int { return 0 }\n"
	}
	if kind == 4 {
		b.s.Files = []string{"kessoku.go", "wiring1.go"}
		b.s.Injectors[1].File = 1
	}
	b.s.Features = append(b.s.Features, fmt.Sprintf("injector-name-not-free-%d", kind))
	return b.s
}

// perEnvironmentBinds: two injectors (production / development), each built
// from its own named set; both sets bind the same interface to the same
// implementation type, each through the constructor listed in that very set,
// and a third injector takes the implementation from an injector-level
// provider. What one list says about "the provider of *PgRepo" must not reach
// the lists migrated after it (in either order: the sets are written
// dev-first in variant 1). Variant 2 declares the interface in a sibling
// package whose only mention in the wire files is the Bind's type argument.
func perEnvironmentBinds(name string, variant int) *spec.Spec {
	b := newBuilder(name)
	cfg := b.nstr("Dsn", "")
	repoI := -1
	if variant == 2 {
		// the interface lives in a sibling package that the wire file names
		// nowhere but inside wire.Bind(new(port.Repo), ...)
		port := b.ext("port", "port", "")
		repoI = b.typ(&spec.Type{Kind: spec.KIface, Name: "Repo", Pkg: port})
		b.s.Features = append(b.s.Features, "package-named-only-as-bind-type-argument")
	} else {
		repoI = b.iface("Repo")
	}
	pg := b.typ(&spec.Type{Kind: spec.KStruct, Name: "PgRepo", Impl: []int{repoI}, PtrRecv: true})
	ppg := b.ptr(pg)
	svc := b.ptr(b.strct("Service", ""))
	prod := b.fn("ProvideProdRepo", "", []int{cfg}, []int{ppg}, false, false)
	dev := b.fn("ProvideDevRepo", "", []int{cfg}, []int{ppg}, false, variant == 1)
	test := b.fn("ProvideTestRepo", "", []int{cfg}, []int{ppg}, false, false)
	for _, p := range []int{prod, dev, test} {
		b.s.Provs[p].Binds = []int{repoI}
	}
	ns := b.fn("NewService", "", []int{repoI}, []int{svc}, false, false)
	order := [][2]interface{}{{"InitProd", prod}, {"InitDev", dev}, {"InitTest", test}}
	if variant == 1 {
		order[0], order[1] = order[1], order[0]
	}
	for _, o := range order {
		b.inject(o[0].(string), svc, o[1].(int), ns)
	}
	b.s.WireAllInSets = true
	b.s.WireBindsStay = true
	b.s.Features = append(b.s.Features, "same-implementation-bound-in-several-sets-each-with-its-own-constructor")
	return b.s
}

// thirdPartyGeneratedTypes: the package holds a file written by another code
// generator (header "Code generated by sqlc. DO NOT EDIT.") that declares the
// unexported types settings and queries; fallible providers return them, one
// injector requests settings itself. The variables derived from those types
// must not take the types' own names: `var zero settings` follows.
func thirdPartyGeneratedTypes(name string, async bool) *spec.Spec {
	b := newBuilder(name)
	st := b.typ(&spec.Type{Kind: spec.KRaw, Raw: "settings", BaseVar: "settings", RawNames: []string{"settings"}})
	qt := b.typ(&spec.Type{Kind: spec.KRaw, Raw: "*queries", BaseVar: "queries", RawNames: []string{"queries"}})
	b.s.GeneratedDecl += "type settings struct{ name string }\n\ntype queries struct{ n int }\n"
	p1 := b.fn("LoadSettings", "", nil, []int{st}, async, true)
	p2 := b.fn("OpenQueries", "", []int{st}, []int{qt}, false, true)
	p3 := b.fn("CountRows", "", nil, []int{b.nint("RowCount", "")}, async, true)
	app := b.ptr(b.strct("App", ""))
	p4 := b.fn("NewApp", "", []int{qt, b.s.Provs[p3].Results[0]}, []int{app}, false, false)
	b.inject("InitializeSettings", st, p1)
	b.inject("InitializeQueries", qt, p1, p2)
	b.inject("InitializeApp", app, p1, p2, p3, p4)
	b.s.Dynamic = false
	b.s.Features = append(b.s.Features, "types-declared-in-a-file-generated-by-another-tool")
	return b.s
}

// allInvocationModes makes what a corpus program exercises independent of its
// position in the list: the program itself is generated by one run over all
// its files; a copy "…v" by one run per file (programs with several files);
// and a pair of copies "…u","…w" by ONE run spanning both packages, so that
// the second package meets a name pool in which every name it will ask for
// (imports, variables, channels) is already taken once.
func allInvocationModes(specs []*spec.Spec) []*spec.Spec {
	var out []*spec.Spec
	for _, s := range specs {
		s.InvMode = "one"
		out = append(out, s)
		if len(s.Files) > 1 {
			v := renamed(s, s.Name+"v")
			v.InvMode = "per"
			out = append(out, v)
		}
		u, w := renamed(s, s.Name+"u"), renamed(s, s.Name+"w")
		u.InvMode, u.PairWith = "first", w.Name
		w.InvMode, w.PairWith = "pair", u.Name
		out = append(out, u, w)
	}
	return out
}

func renamed(s *spec.Spec, name string) *spec.Spec {
	c := s.Clone()
	c.Name, c.PkgName = name, name
	return c
}

// corpusSpecs returns the fixed regression declarations that run at every
// seed for the given property.
func corpusSpecs(prop string) []*spec.Spec {
	switch prop {
	case "C13":
		return []*spec.Spec{twinConfigs("k13a", false), twinConfigs("k13b", true), sameNamedPackages("k13c"), structOfSameNamedPackage("k13s"), perEnvironmentBinds("k13e", 0), perEnvironmentBinds("k13f", 1), perEnvironmentBinds("k13g", 2)}
	case "C14":
		h := sameNamedPackages("k14h")
		// an input-free provider in the main package for the local helper to wrap
		hb := &builder{s: h}
		lim := hb.ptr(hb.strct("Limits", ""))
		pl := hb.fn("NewLimits", "", nil, []int{lim}, false, false)
		app := h.Provs[len(h.Provs)-2]
		app.Params = append(app.Params, lim)
		h.Injectors[0].Items = append(h.Injectors[0].Items, spec.Item{Prov: pl})
		h.WireLocalHelper = true
		h.Features = append(h.Features, "provider-declared-in-the-wire-file")
		return []*spec.Spec{twinConfigs("k14a", false), twinConfigs("k14b", true), sameNamedPackages("k14c"), h, sameLocalNameInTwoWireFiles("k14v"), localNameEqualsForeignPackage("k14n"), structOfSameNamedPackage("k14s"), perEnvironmentBinds("k14e", 0), perEnvironmentBinds("k14g", 2)}
	case "C04", "C12":
		var fs []*spec.Spec
		for k := 0; k < 4; k++ {
			for v := 0; v < 3; v++ {
				fs = append(fs, foreignThroughSibling(fmt.Sprintf("kf%s%da%d", prop[1:], k, v), k, true, v))
			}
			fs = append(fs, foreignThroughSibling(fmt.Sprintf("kf%s%ds", prop[1:], k), k, false, 0))
		}
		fs = append(fs, setReferenceForms("ks"+prop[1:]+"p", 0, true), setReferenceForms("ks"+prop[1:]+"x", 1, true))
		fs = append(fs, shadowableNames("kv"+prop[1:]+"s", false), shadowableNames("kv"+prop[1:]+"a", true))
		fs = append(fs, suffixNamedFiles("kz"+prop[1:]+"s", false), suffixNamedFiles("kz"+prop[1:]+"a", true))
		fs = append(fs, foreignCompositeKeys("kc"+prop[1:]+"s", false), foreignCompositeKeys("kc"+prop[1:]+"a", true))
		fs = append(fs, spelledTwoWays("kt"+prop[1:]+"s", false), spelledTwoWays("kt"+prop[1:]+"a", true))
		fs = append(fs, unicodeTypeNames("ku"+prop[1:]+"s", false), unicodeTypeNames("ku"+prop[1:]+"a", true))
		fs = append(fs, resultTypeShapes("kr"+prop[1:]))
		fs = append(fs, thirdPartyGeneratedTypes("kg"+prop[1:]+"s", false), thirdPartyGeneratedTypes("kg"+prop[1:]+"a", true))
		fs = append(fs, sharedSetAliasedImport("kh"+prop[1:]+"s", false), sharedSetAliasedImport("kh"+prop[1:]+"a", true))
		fs = append(fs, dotImported("kd"+prop[1:]+"s", false), dotImported("kd"+prop[1:]+"a", true))
		fs = append(fs, bindVariadic("kb"+prop[1:]+"s", false, false), bindVariadic("kb"+prop[1:]+"a", true, false), bindVariadic("kb"+prop[1:]+"t", false, true), bindVariadic("kb"+prop[1:]+"b", true, true))
		if prop == "C04" {
			for k := 0; k < 6; k++ {
				fs = append(fs, injectorNameForms(fmt.Sprintf("kn04i%d", k), k))
			}
			for v := 0; v < 3; v++ {
				fs = append(fs, unexportedForeign(fmt.Sprintf("ku04v%d", v), v))
			}
		}
		return append(allInvocationModes(append(fs, append([]*spec.Spec{twinConfigs("k"+prop[1:]+"a", false), sameNamedPackages("k" + prop[1:] + "c"), foreignAliasSecondFile("k" + prop[1:] + "f")}, keywordSweepSpecs("kw"+prop[1:])...)...)), allocatorSequenceSpecs("ky"+prop[1:])...)
	case "C09":
		return []*spec.Spec{sameNamedPackages("k09c"), twinConfigs("k09a", false), spelledTwoWays("kt09s", false), spelledTwoWays("kt09a", true), suffixNamedFiles("kz09s", false), suffixNamedFiles("kz09a", true), aliasDeclaredFields("ka09s", false), aliasDeclaredFields("ka09a", true), setReferenceForms("ks09p", 0, false), setReferenceForms("ks09q", 0, true), setReferenceForms("ks09x", 1, false), setReferenceForms("ks09y", 1, true)}
	case "C02", "C01", "C10", "C11":
		var fs []*spec.Spec
		if prop == "C02" || prop == "C01" || prop == "C10" {
			fs = append(fs, shadowableNames("kv"+prop[1:]+"s", false), shadowableNames("kv"+prop[1:]+"a", true))
			fs = append(fs, shadowableNames("kv"+prop[1:]+"t", false, true), shadowableNames("kv"+prop[1:]+"b", true, true))
			fs = append(fs, suffixNamedFiles("kz"+prop[1:]+"s", false), suffixNamedFiles("kz"+prop[1:]+"a", true))
			fs = append(fs, dotImported("kd"+prop[1:]+"s", false), dotImported("kd"+prop[1:]+"a", true))
			fs = append(fs, aliasDeclaredFields("ka"+prop[1:]+"s", false), aliasDeclaredFields("ka"+prop[1:]+"a", true))
			fs = append(fs, sharedSetAliasedImport("kh"+prop[1:]+"s", false), sharedSetAliasedImport("kh"+prop[1:]+"a", true))
			fs = append(fs, bindVariadic("kb"+prop[1:]+"s", false, false), bindVariadic("kb"+prop[1:]+"a", true, false), bindVariadic("kb"+prop[1:]+"t", false, true), bindVariadic("kb"+prop[1:]+"b", true, true))
			fs = append(fs, setReferenceForms("ks"+prop[1:]+"p", 0, false), setReferenceForms("ks"+prop[1:]+"q", 0, true))
		}
		if prop == "C11" {
			fs = append(fs, suffixNamedFiles("kz11s", false), suffixNamedFiles("kz11a", true))
			fs = append(fs, crossFileNames("kx11"))
		}
		if prop == "C01" || prop == "C02" {
			fs = append(fs, resultTypeShapes("kr"+prop[1:]))
		}
		if prop == "C10" {
			fs = append(fs, spelledTwoWays("kt10s", false), spelledTwoWays("kt10a", true))
			fs = append(fs, sameNamedArguments("kn10"))
		}
		if prop == "C10" || prop == "C11" {
			for k := 0; k < 4; k++ {
				fs = append(fs, foreignThroughSibling(fmt.Sprintf("kf%s%da", prop[1:], k), k, true, 0), foreignThroughSibling(fmt.Sprintf("kf%s%db", prop[1:], k), k, true, 2))
			}
		}
		fs = append(fs, []*spec.Spec{twinConfigs("k"+prop[1:]+"a", false), sameNamedPackages("k" + prop[1:] + "c"),
			structValueAndPointer("k"+prop[1:]+"d", false, false), structValueAndPointer("k"+prop[1:]+"e", true, true), foreignAliasSecondFile("k" + prop[1:] + "f")}...)
		switch prop {
		case "C10":
			return allInvocationModes(fs)
		case "C11":
			var out []*spec.Spec
			for _, s := range allInvocationModes(fs) {
				if s.InvMode == "one" || s.InvMode == "per" {
					out = append(out, s)
				}
			}
			return out
		}
		return fs
	}
	return nil
}

// allocatorSequenceSpecs: request histories for the name allocator. One
// injector per program whose providers form a chain over the four types
// Foo0, Foo, *Foo and Foo1 (all 24 orders, so every order in which the base
// names foo0, foo, foo, foo1 can be asked for occurs), and the same with a
// package-level variable foo0 instead of the type Foo0 (6 orders). Whatever
// the history, a name handed out once must stay taken.
func allocatorSequenceSpecs(prefix string) []*spec.Spec {
	var out []*spec.Spec
	var perms func(rest []string, cur []string, f func([]string))
	perms = func(rest []string, cur []string, f func([]string)) {
		if len(rest) == 0 {
			f(append([]string{}, cur...))
			return
		}
		for i := range rest {
			nr := append(append([]string{}, rest[:i]...), rest[i+1:]...)
			perms(nr, append(cur, rest[i]), f)
		}
	}
	build := func(name string, order []string, pkgLevel bool) {
		b := newBuilder(name)
		foo := -1
		prev := -1
		var provs []int
		for k, n := range order {
			var t int
			switch n {
			case "*Foo":
				if foo < 0 {
					foo = b.strct("Foo", "")
				}
				t = b.ptr(foo)
			case "Foo":
				if foo < 0 {
					foo = b.strct("Foo", "")
				}
				t = foo
			default:
				t = b.strct(n, "")
			}
			var params []int
			if prev >= 0 {
				params = []int{prev}
			}
			provs = append(provs, b.fn(fmt.Sprintf("Step%d", k), "", params, []int{t}, false, k == 1))
			prev = t
		}
		b.inject("InitializeChain", prev, provs...)
		if pkgLevel {
			b.s.ExtraDecl += "var foo0 = 0\n"
		}
		b.s.Features = append(b.s.Features, "allocator-request-history")
		out = append(out, b.s)
	}
	i := 0
	perms([]string{"Foo0", "Foo", "*Foo", "Foo1"}, nil, func(o []string) {
		build(fmt.Sprintf("%sq%02d", prefix, i), o, false)
		i++
	})
	perms([]string{"Foo", "*Foo", "Foo1"}, nil, func(o []string) {
		build(fmt.Sprintf("%sq%02d", prefix, i), o, true)
		i++
	})
	return out
}

// keywordSweepSpecs: every Go keyword and predeclared identifier, capitalised,
// as a type name (so that its lower-camel form is the variable base name),
// ten per program, sync and Async.
func keywordSweepSpecs(prefix string) []*spec.Spec {
	names := []string{"Break", "Default", "Func", "Interface", "Select", "Case", "Defer", "Go", "Map", "Struct", "Chan", "Else", "Goto", "Package", "Switch",
		"Const", "Fallthrough", "If", "Range", "Type", "Continue", "For", "Import", "Return", "Var",
		"Any", "Bool", "Byte", "Comparable", "Complex64", "Complex128", "Error", "Float32", "Float64", "Int", "Int8", "Int16", "Int32", "Int64", "Rune", "String",
		"Uint", "Uint8", "Uint16", "Uint32", "Uint64", "Uintptr", "True", "False", "Iota", "Nil", "Append", "Cap", "Clear", "Close", "Complex", "Copy", "Delete",
		"Imag", "Len", "Make", "Max", "Min", "New", "Panic", "Print", "Println", "Real", "Recover"}
	var out []*spec.Spec
	for i := 0; i < len(names); i += 10 {
		chunk := names[i:min(i+10, len(names))]
		for _, async := range []bool{false, true} {
			b := newBuilder(fmt.Sprintf("%s%02d%v", prefix, i/10, map[bool]string{false: "s", true: "a"}[async]))
			var params, provs []int
			for k, n := range chunk {
				t := b.ptr(b.strct(n, ""))
				provs = append(provs, b.fn(fmt.Sprintf("Provide%s", n), "", nil, []int{t}, async && k%2 == 0, k%3 == 0))
				params = append(params, t)
			}
			app := b.ptr(b.strct("AppRoot", ""))
			provs = append(provs, b.fn("NewAppRoot", "", params, []int{app}, false, false))
			b.inject("InitializeAppRoot", app, provs...)
			// second injector: the same types as arguments (nobody supplies them)
			b.inject("BuildFromArguments", app, provs[len(provs)-1])
			b.s.Features = append(b.s.Features, "keyword-and-predeclared-type-names")
			out = append(out, b.s)
		}
	}
	return out
}
