// Package fsmon: file-system monitor and syscall-level fault injector for
// the skill installer (properties C15 and C16). Executions are runs of the
// real kessoku binary in a private root, observed through before/after tree
// snapshots and the strace log (which is also the injector).
package fsmon

import (
	"crypto/sha256"
	"encoding/hex"
	"fmt"
	"os"
	"path/filepath"
	"regexp"
	"sort"
	"strconv"
	"strings"

	"vharness/internal/base"
)

// ---------------------------------------------------------------- documentation oracle

type AgentDoc struct {
	Display string // "Claude Code"
	Name    string // "claude-code"
	Project string // ".claude/skills"
	User    string // ".claude/skills" (relative to $HOME)
}

// ParseReadme extracts the documented agents and their directories from README.md.
func ParseReadme() ([]AgentDoc, error) {
	b, err := os.ReadFile(filepath.Join(base.RepoDir, "README.md"))
	if err != nil {
		return nil, err
	}
	txt := string(b)
	var docs []AgentDoc
	reSup := regexp.MustCompile(`(?m)^\*\*Supported agents:\*\*(.*)$`)
	m := reSup.FindStringSubmatch(txt)
	if m == nil {
		return nil, fmt.Errorf("README: no 'Supported agents' line")
	}
	reOne := regexp.MustCompile("([A-Za-z][A-Za-z ]*?)\\(`([a-z0-9-]+)`\\)")
	for _, x := range reOne.FindAllStringSubmatch(m[1], -1) {
		docs = append(docs, AgentDoc{Display: strings.TrimSpace(x[1]), Name: x[2]})
	}
	rePath := regexp.MustCompile("(?m)^- \\*\\*([^:*]+):\\*\\* `([^`]+)` \\(project\\) or `~/([^`]+)` \\(user\\)")
	found := 0
	for _, x := range rePath.FindAllStringSubmatch(txt, -1) {
		for i := range docs {
			if docs[i].Display == strings.TrimSpace(x[1]) {
				docs[i].Project = strings.TrimSuffix(x[2], "/")
				docs[i].User = strings.TrimSuffix(x[3], "/")
				found++
			}
		}
	}
	if len(docs) == 0 || found != len(docs) {
		return nil, fmt.Errorf("README: %d agents but %d path lines matched", len(docs), found)
	}
	return docs, nil
}

// SkillTree reads the embedded skill tree from the repository sources on disk.
// Returns the skill directory name and rel path -> content.
func SkillTree() (string, map[string][]byte, error) {
	root := filepath.Join(base.RepoDir, "internal", "llmsetup", "skills")
	ents, err := os.ReadDir(root)
	if err != nil {
		return "", nil, err
	}
	var name string
	for _, e := range ents {
		if e.IsDir() {
			if name != "" {
				return "", nil, fmt.Errorf("more than one skill directory under %s", root)
			}
			name = e.Name()
		}
	}
	if name == "" {
		return "", nil, fmt.Errorf("no skill directory")
	}
	files := map[string][]byte{}
	err = filepath.Walk(filepath.Join(root, name), func(p string, info os.FileInfo, err error) error {
		if err != nil {
			return err
		}
		if info.Mode().IsRegular() {
			rel, _ := filepath.Rel(filepath.Join(root, name), p)
			b, err := os.ReadFile(p)
			if err != nil {
				return err
			}
			files[rel] = b
		}
		return nil
	})
	return name, files, err
}

// ---------------------------------------------------------------- snapshots

type Ent struct {
	Dir  bool
	Mode os.FileMode
	Sha  string
	Size int64
	Link string
}

func (e Ent) String() string {
	if e.Dir {
		return fmt.Sprintf("dir %o", e.Mode.Perm())
	}
	if e.Link != "" {
		return "link->" + e.Link
	}
	return fmt.Sprintf("file %o %d %s", e.Mode.Perm(), e.Size, e.Sha)
}

func Snapshot(root string) map[string]Ent {
	out := map[string]Ent{}
	filepath.Walk(root, func(p string, info os.FileInfo, err error) error {
		if err != nil {
			return nil
		}
		rel, _ := filepath.Rel(root, p)
		if rel == "." {
			return nil
		}
		e := Ent{Dir: info.IsDir(), Mode: info.Mode()}
		if info.Mode()&os.ModeSymlink != 0 {
			e.Link, _ = os.Readlink(p)
		} else if info.Mode().IsRegular() {
			b, _ := os.ReadFile(p)
			h := sha256.Sum256(b)
			e.Sha = hex.EncodeToString(h[:8])
			e.Size = info.Size()
		}
		out[rel] = e
		return nil
	})
	return out
}

func shaOf(b []byte) string {
	h := sha256.Sum256(b)
	return hex.EncodeToString(h[:8])
}

// ---------------------------------------------------------------- strace

type Event struct {
	Pid      int
	Name     string
	Args     string
	Ret      string
	Injected bool
	Raw      string
}

var reLine = regexp.MustCompile(`^(\d+)\s+([a-z0-9_]+)\((.*)$`)

// ParseStrace parses a `strace -f -y -o` log, joining unfinished/resumed pairs.
func ParseStrace(path string) ([]Event, []string) {
	b, err := os.ReadFile(path)
	if err != nil {
		return nil, nil
	}
	var evs []Event
	var killed []string
	pending := map[int]string{}
	for _, l := range strings.Split(string(b), "\n") {
		if l == "" {
			continue
		}
		if strings.Contains(l, "+++ killed by") || strings.Contains(l, "+++ exited with") {
			killed = append(killed, l)
			continue
		}
		if i := strings.Index(l, " <unfinished ...>"); i >= 0 {
			fs := strings.SplitN(l, " ", 2)
			pid, _ := strconv.Atoi(fs[0])
			pending[pid] = l[:i]
			continue
		}
		if strings.Contains(l, "<... ") && strings.Contains(l, " resumed>") {
			fs := strings.SplitN(l, " ", 2)
			pid, _ := strconv.Atoi(fs[0])
			j := strings.Index(l, " resumed>")
			if p, ok := pending[pid]; ok {
				l = p + l[j+len(" resumed>"):]
				delete(pending, pid)
			} else {
				continue
			}
		}
		m := reLine.FindStringSubmatch(l)
		if m == nil {
			continue
		}
		pid, _ := strconv.Atoi(m[1])
		rest := m[3]
		ev := Event{Pid: pid, Name: m[2], Raw: l}
		if k := strings.LastIndex(rest, ") = "); k >= 0 {
			ev.Args = rest[:k]
			ev.Ret = rest[k+4:]
		} else {
			ev.Args = rest
		}
		ev.Injected = strings.Contains(ev.Ret, "(INJECTED)")
		evs = append(evs, ev)
	}
	// syscalls that never finished (process killed at entry)
	pids := make([]int, 0, len(pending))
	for p := range pending {
		pids = append(pids, p)
	}
	sort.Ints(pids)
	for _, p := range pids {
		m := reLine.FindStringSubmatch(pending[p])
		if m != nil {
			evs = append(evs, Event{Pid: p, Name: m[2], Args: m[3], Ret: "?", Raw: pending[p] + " <unfinished>"})
		}
	}
	return evs, killed
}

var mutatingNames = map[string]bool{
	"mkdirat": true, "mkdir": true, "write": true, "pwrite64": true, "writev": true, "fsync": true, "fdatasync": true,
	"fchmodat": true, "fchmodat2": true, "fchmod": true, "chmod": true, "renameat": true, "renameat2": true, "rename": true,
	"linkat": true, "link": true, "symlinkat": true, "symlink": true, "unlinkat": true, "unlink": true, "rmdir": true,
	"ftruncate": true, "truncate": true, "fchownat": true, "fchown": true, "chown": true, "utimensat": true,
	"copy_file_range": true, "sendfile": true, "fallocate": true, "creat": true, "mknodat": true, "setxattr": true, "fsetxattr": true,
}

// Mutating tells whether the event changes the file system (by name/flags).
func (e Event) Mutating() bool {
	if mutatingNames[e.Name] {
		return true
	}
	if e.Name == "openat" || e.Name == "open" || e.Name == "openat2" {
		return strings.Contains(e.Args, "O_WRONLY") || strings.Contains(e.Args, "O_RDWR") || strings.Contains(e.Args, "O_CREAT") || strings.Contains(e.Args, "O_TRUNC")
	}
	return false
}

var reQuoted = regexp.MustCompile(`"((?:[^"\\]|\\.)*)"`)
var reFd = regexp.MustCompile(`\d+<([^>]*)>`)
var reCwd = regexp.MustCompile(`AT_FDCWD<([^>]*)>`)

// Paths returns the absolute paths the event refers to (string arguments
// resolved against the annotated cwd, and annotated descriptors).
func (e Event) Paths() []string {
	var out []string
	cwd := ""
	if m := reCwd.FindStringSubmatch(e.Args); m != nil {
		cwd = m[1]
	}
	switch e.Name {
	case "write", "pwrite64", "writev", "read", "pread64":
		// only the descriptor: the buffer is data, not a path
		if m := reFd.FindStringSubmatch(e.Args); m != nil {
			out = append(out, m[1])
		}
		return out
	}
	for _, m := range reFd.FindAllStringSubmatch(e.Args, -1) {
		out = append(out, m[1])
	}
	for _, m := range reQuoted.FindAllStringSubmatch(e.Args, -1) {
		p := m[1]
		if p == "" {
			continue
		}
		if !strings.HasPrefix(p, "/") {
			if cwd == "" {
				continue
			}
			p = filepath.Join(cwd, p)
		}
		out = append(out, filepath.Clean(p))
	}
	return out
}

func under(p, root string) bool {
	return p == root || strings.HasPrefix(p, root+"/")
}

// Under tells whether any path of the event is under root.
func (e Event) Under(root string) bool {
	for _, p := range e.Paths() {
		if under(p, root) {
			return true
		}
	}
	return false
}

// TraceSet is the syscall set traced in every strace run.
const TraceSet = "trace=%file,write,pwrite64,writev,fsync,fdatasync,close,fchmod,fchown,ftruncate,fallocate,copy_file_range,sendfile"

type RunOut struct {
	base.Result
	Events []Event
	Ends   []string
	Log    string
}

// RunCLI runs the kessoku binary in cwd with HOME=home; if inject != "" or
// trace is set, under strace.
func RunCLI(cli, cwd, home, umask string, trace bool, inject string, logPath string, args ...string) RunOut {
	var cmdline []string
	if trace || inject != "" {
		cmdline = []string{"strace", "-f", "-y", "-s", "16", "-o", logPath, "-e", TraceSet}
		if inject != "" {
			cmdline = append(cmdline, "-e", "inject="+inject)
		}
		cmdline = append(cmdline, cli)
	} else {
		cmdline = []string{cli}
	}
	cmdline = append(cmdline, args...)
	sh := "umask " + umask + "; exec \"$@\""
	full := append([]string{"-c", sh, "sh"}, cmdline...)
	env := []string{"HOME=" + home, "GOMAXPROCS=1"}
	r := base.Cmd{Dir: cwd, Env: env, Name: "sh", Args: full, Timeout: 60e9}.Run()
	out := RunOut{Result: r}
	if trace || inject != "" {
		out.Events, out.Ends = ParseStrace(logPath)
		b, _ := os.ReadFile(logPath)
		out.Log = string(b)
	}
	return out
}
