package fsmon

import (
	"fmt"
	"os"
	"path/filepath"
	"regexp"
	"sort"
	"strings"

	"vharness/internal/base"
)

// prior states of the destination
var c16Priors = []string{"absent", "older", "samebytes", "unrelated", "basefile"}

// modes of invocation
var c16Modes = []string{"default", "user", "path-rel", "path-abs", "path-rel+user", "path-abs+user"}

type c16Case struct {
	Agent AgentDoc
	Mode  string
	Prior string
	Umask string
}

func (c c16Case) String() string {
	return fmt.Sprintf("%s/%s/%s/umask%s", c.Agent.Name, c.Mode, c.Prior, c.Umask)
}

// CheckC16 runs the full agent x mode x prior-state matrix.
func CheckC16(tier string) {
	rep := base.NewReport("C16", tier, "exploration")
	rep.Rule = "full matrix documented-agent x {default,--user,--path rel,--path abs,--path rel --user,--path abs --user} x prior destination state {absent, older install with odd modes + extra file, install with current bytes but other modes and a symlinked file, unrelated files around, base is a regular file}, umask alternating 022/077/000; plus CLI surface probes (help listing, each documented name accepted, undocumented names rejected). A case is non-trivial when the installer ran to a verdict (exit status observed and tree compared); distinct = distinct (agent,mode,prior) cells."
	rep.Assumptions = []string{
		"README.md's 'Supported agents' line and 'Default installation paths' list are the documentation oracle",
		"the embedded tree equals internal/llmsetup/skills/<skill> on disk in the repository working tree",
		"directory modes and directory mtimes are not part of the property",
	}
	scratch := base.Scratch("C16")
	cli := base.BuildCLI(scratch)
	docs, err := ParseReadme()
	if err != nil {
		base.Fatalf("%v", err)
	}
	skill, tree, err := SkillTree()
	if err != nil {
		base.Fatalf("%v", err)
	}
	rep.Cov["documented_agents"] = len(docs)
	rep.Cov["skill_files"] = len(tree)

	var cases []c16Case
	umasks := []string{"022", "077", "000"}
	n := int(base.Seed())
	for _, a := range docs {
		for _, m := range c16Modes {
			for _, p := range c16Priors {
				cases = append(cases, c16Case{Agent: a, Mode: m, Prior: p, Umask: umasks[n%3]})
				n++
			}
		}
	}
	trace := tier == "thorough"
	base.Parallel(len(cases), 16, func(i int) {
		runC16Case(rep, cli, scratch, i, cases[i], skill, tree, trace)
	})
	checkSurface(rep, cli, scratch, docs)
	rep.Exhaustive = true
	rep.Finish()
}

func writeFileMode(p string, content string, mode os.FileMode) {
	os.MkdirAll(filepath.Dir(p), 0o755)
	os.WriteFile(p, []byte(content), mode)
	os.Chmod(p, mode)
}

func runC16Case(rep *base.Report, cli, scratch string, idx int, c c16Case, skill string, tree map[string][]byte, trace bool) {
	root := filepath.Join(scratch, fmt.Sprintf("r%04d", idx))
	home := filepath.Join(root, "home")
	cwd := filepath.Join(root, "proj")
	os.MkdirAll(home, 0o755)
	os.MkdirAll(cwd, 0o755)
	defer os.RemoveAll(root)
	args := []string{"llm-setup", c.Agent.Name}
	var baseDir string
	switch c.Mode {
	case "default":
		baseDir = filepath.Join(cwd, c.Agent.Project)
	case "user":
		baseDir = filepath.Join(home, c.Agent.User)
		args = append(args, "--user")
	case "path-rel":
		baseDir = filepath.Join(cwd, "custom/rel dir")
		args = append(args, "--path", "custom/rel dir")
	case "path-abs":
		baseDir = filepath.Join(root, "abs", "place")
		args = append(args, "--path", baseDir)
	case "path-rel+user":
		baseDir = filepath.Join(cwd, "custom2/rel")
		args = append(args, "--user", "--path", "./custom2/rel")
	case "path-abs+user":
		baseDir = filepath.Join(root, "abs2", "place")
		args = append(args, "-p", baseDir, "--user")
	}
	dest := filepath.Join(baseDir, skill)
	// decoys: files that must never change
	writeFileMode(filepath.Join(home, ".profile"), "decoy-home", 0o600)
	writeFileMode(filepath.Join(cwd, "main.go"), "package main", 0o644)
	writeFileMode(filepath.Join(home, c.Agent.User, "other-skill", "SKILL.md"), "other user skill", 0o640)
	writeFileMode(filepath.Join(cwd, c.Agent.Project, "other-skill", "SKILL.md"), "other project skill", 0o640)
	if c.Mode != "user" {
		// remove the decoy that would pre-create the base in modes where
		// "absent" must really be absent
	}
	switch c.Prior {
	case "absent":
		if c.Mode == "default" {
			os.RemoveAll(filepath.Join(cwd, firstSeg(c.Agent.Project)))
		}
		if c.Mode == "user" {
			os.RemoveAll(filepath.Join(home, firstSeg(c.Agent.User)))
		}
	case "older":
		k := 0
		for rel := range tree {
			mode := []os.FileMode{0o600, 0o444, 0o755, 0o640}[k%4]
			writeFileMode(filepath.Join(dest, rel), "OLD CONTENT "+rel, mode)
			k++
		}
		writeFileMode(filepath.Join(dest, "notes-from-user.txt"), "keep me", 0o600)
	case "samebytes":
		// an install whose files already have today's bytes, but other modes,
		// and one of them is a symlink to an identical file elsewhere
		k := 0
		for _, rel := range relFiles(tree) {
			p := filepath.Join(dest, rel)
			if k == 1 {
				elsewhere := filepath.Join(root, "elsewhere", "copy-of-"+filepath.Base(rel))
				writeFileMode(elsewhere, string(tree[rel]), 0o644)
				os.MkdirAll(filepath.Dir(p), 0o755)
				os.Symlink(elsewhere, p)
			} else {
				writeFileMode(p, string(tree[rel]), []os.FileMode{0o600, 0o644, 0o444, 0o755}[k%4])
			}
			k++
		}
	case "unrelated":
		writeFileMode(filepath.Join(baseDir, "unrelated.txt"), "unrelated", 0o604)
		writeFileMode(filepath.Join(baseDir, skill+"-backup", "SKILL.md"), "backup", 0o644)
		writeFileMode(filepath.Join(filepath.Dir(baseDir), "sibling.txt"), "sibling", 0o644)
	case "basefile":
		os.RemoveAll(baseDir)
		writeFileMode(baseDir, "i am a file", 0o644)
	}
	before := Snapshot(root)
	logPath := filepath.Join(scratch, fmt.Sprintf("c16-%04d.strace", idx))
	out := RunCLI(cli, cwd, home, c.Umask, trace, "", logPath, args...)
	defer os.Remove(logPath)
	after := Snapshot(root)
	relDest, _ := filepath.Rel(root, dest)

	cell := fmt.Sprintf("%s/%s/%s", c.Agent.Name, c.Mode, c.Prior)
	rep.Eval(cell)
	rep.Count("installer_runs", 1)
	var problems []string
	if c.Prior == "basefile" {
		if out.Exit == 0 {
			problems = append(problems, "exit 0 although the base path is a regular file")
		}
		if strings.TrimSpace(out.Stderr) == "" {
			problems = append(problems, "no diagnostic on stderr")
		}
		for _, d := range diffTrees(before, after, "", true) {
			problems = append(problems, "changed: "+d)
		}
	} else {
		if out.Exit != 0 {
			problems = append(problems, fmt.Sprintf("exit %d: %s", out.Exit, strings.TrimSpace(out.Stderr)))
		}
		// installed tree
		for rel, want := range tree {
			e, ok := after[filepath.Join(relDest, rel)]
			switch {
			case !ok:
				problems = append(problems, "missing "+filepath.Join(relDest, rel))
			case e.Dir || e.Link != "":
				problems = append(problems, "not a regular file: "+rel)
			default:
				if e.Sha != shaOf(want) {
					problems = append(problems, "content differs: "+rel)
				}
				if e.Mode.Perm() != 0o644 {
					problems = append(problems, fmt.Sprintf("mode %o (want 644): %s", e.Mode.Perm(), rel))
				}
			}
		}
		rep.Count("files_compared", len(tree))
		// containment: nothing outside dest changes, except new ancestor dirs
		for _, d := range diffTrees(before, after, relDest, false) {
			problems = append(problems, "outside destination: "+d)
		}
		// inside dest: pre-existing foreign files must survive; no temp leftovers
		for p, e := range after {
			if under(p, relDest) && !e.Dir && strings.HasPrefix(filepath.Base(p), ".tmp-") {
				problems = append(problems, "temporary file left: "+p)
			}
		}
		if c.Prior == "older" {
			p := filepath.Join(relDest, "notes-from-user.txt")
			if after[p] != before[p] {
				problems = append(problems, "pre-existing file inside destination changed: "+p)
			}
		}
	}
	if trace {
		mut := 0
		for _, ev := range out.Events {
			if !ev.Mutating() || !ev.Under(root) {
				continue
			}
			if strings.HasPrefix(ev.Ret, "-1") {
				continue
			}
			mut++
			for _, p := range ev.Paths() {
				if !under(p, root) {
					continue
				}
				okPath := under(p, dest)
				if !okPath && (ev.Name == "mkdirat" || ev.Name == "mkdir") && under(dest, p) {
					okPath = true // creating a missing ancestor
				}
				if !okPath && p == cwd && strings.Contains(ev.Raw, "AT_FDCWD<") {
					okPath = true // the annotated cwd itself is not a target
				}
				if !okPath {
					problems = append(problems, "mutating syscall outside destination: "+ev.Raw)
				}
			}
		}
		rep.Count("mutating_syscalls_observed", mut)
	}
	if len(problems) > 0 {
		sort.Strings(problems)
		rep.Violate(base.Violation{
			Sig:  "C16/" + c.Mode + "/" + c.Prior + "/" + classify16(problems[0]),
			What: fmt.Sprintf("case %s args=%v: %s", c, args, strings.Join(problems, "; ")),
			Files: map[string]string{"case.txt": fmt.Sprintf("%s\nargs=%q\ncwd=proj home=home umask=%s\nexit=%d\nstderr=%s\nproblems:\n%s\n",
				c, args, c.Umask, out.Exit, out.Stderr, strings.Join(problems, "\n")), "strace.log": out.Log},
		})
		return
	}
	rep.Sample(map[string]any{"case": c.String(), "args": args, "exit": out.Exit, "dest": relDest, "files_installed": len(tree)})
}

func firstSeg(p string) string {
	return strings.SplitN(p, "/", 2)[0]
}

func classify16(p string) string {
	for _, k := range []string{"exit", "missing", "content differs", "mode", "outside destination", "temporary", "pre-existing", "mutating syscall", "changed", "no diagnostic", "not a regular"} {
		if strings.HasPrefix(p, k) {
			return strings.ReplaceAll(k, " ", "-")
		}
	}
	return "other"
}

// diffTrees lists differences between snapshots outside `except` (a relative
// directory; "" = none). New directories that are ancestors of except are
// allowed. Directory modes are compared only for pre-existing directories.
func diffTrees(before, after map[string]Ent, except string, strict bool) []string {
	var out []string
	for p, b := range before {
		if except != "" && under(p, except) {
			continue
		}
		a, ok := after[p]
		if !ok {
			out = append(out, "removed "+p)
			continue
		}
		if a != b {
			out = append(out, fmt.Sprintf("modified %s (%s -> %s)", p, b, a))
		}
	}
	for p, a := range after {
		if except != "" && under(p, except) {
			continue
		}
		if _, ok := before[p]; ok {
			continue
		}
		if !strict && a.Dir && except != "" && under(except, p) {
			continue // newly created ancestor of the destination
		}
		out = append(out, fmt.Sprintf("created %s (%s)", p, a))
	}
	sort.Strings(out)
	return out
}

var reCmdLine = regexp.MustCompile(`(?m)^\s+llm-setup ([a-z0-9-]+)\s`)

func checkSurface(rep *base.Report, cli, scratch string, docs []AgentDoc) {
	root := filepath.Join(scratch, "surface")
	os.MkdirAll(filepath.Join(root, "home"), 0o755)
	os.MkdirAll(filepath.Join(root, "proj"), 0o755)
	defer os.RemoveAll(root)
	run := func(args ...string) base.Result {
		return base.Cmd{Dir: filepath.Join(root, "proj"), Env: []string{"HOME=" + filepath.Join(root, "home")}, Name: cli, Args: args}.Run()
	}
	want := map[string]bool{}
	for _, d := range docs {
		want[d.Name] = true
	}
	for _, helpArgs := range [][]string{{"llm-setup", "--help"}, {"llm-setup", "-h"}} {
		r := run(helpArgs...)
		rep.Eval("surface/" + strings.Join(helpArgs, " "))
		got := map[string]int{}
		for _, m := range reCmdLine.FindAllStringSubmatch(r.Stdout+r.Stderr, -1) {
			got[m[1]]++
		}
		var probs []string
		for n := range want {
			if got[n] != 1 {
				probs = append(probs, fmt.Sprintf("documented agent %q listed %d times", n, got[n]))
			}
		}
		for n := range got {
			if !want[n] {
				probs = append(probs, fmt.Sprintf("undocumented subcommand %q offered", n))
			}
		}
		if len(probs) > 0 {
			sort.Strings(probs)
			rep.Violate(base.Violation{Sig: "C16/surface/help-listing", What: strings.Join(probs, "; "),
				Files: map[string]string{"help.txt": r.Stdout + r.Stderr}})
		}
	}
	// undocumented names must be rejected (and must not install anything)
	bogus := []string{"nonesuch", "claude", "codex", "copilot", "gemini", "Claude-Code", "cursor-ai", "aider", "windsurf", "usage"}
	before := Snapshot(root)
	for _, b := range bogus {
		if want[b] {
			continue
		}
		r := run("llm-setup", b)
		rep.Eval("surface/reject/" + b)
		after := Snapshot(root)
		if r.Exit == 0 && b != "usage" || len(diffTrees(before, after, "", true)) > 0 {
			rep.Violate(base.Violation{Sig: "C16/surface/undocumented-accepted", What: fmt.Sprintf("llm-setup %s: exit %d, tree changes %v", b, r.Exit, diffTrees(before, after, "", true))})
		}
	}
	rep.Sample(map[string]any{"surface": "help listing compared with README", "documented": len(docs), "bogus_names_rejected": len(bogus)})
}
