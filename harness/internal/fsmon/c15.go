package fsmon

import (
	"fmt"
	"os"
	"path/filepath"
	"sort"
	"strings"
	"sync"

	"vharness/internal/base"
)

type c15Config struct {
	Agent string
	Args  []string // extra args after agent
	Prior string   // fresh | older | partial
	Dest  func(root, skill string) string
}

type step struct {
	Name   string // syscall name
	Target string // path relative to dest, temp names normalised
	Ord    int    // ordinal among steps with same (name,target)
}

func (s step) String() string { return fmt.Sprintf("%s(%s)#%d", s.Name, s.Target, s.Ord) }

// CheckC15 enumerates every crash point and every single I/O failure of the
// installer's file-system steps.
func CheckC15(tier string) {
	rep := base.NewReport("C15", tier, "fault_enumeration")
	rep.Rule = "per configuration (agent, path mode, prior destination state): a fault-free strace run gives the list of mutating installer steps (syscall, target file, ordinal); then for every syscall name S seen and every k up to its count, one run with SIGKILL at entry of the k-th S and one run per errno with the k-th S failing. The trace decides which step was really hit. A run is non-trivial when the injected call was an installer step on the destination tree; distinct = distinct (configuration, fault kind, step)."
	rep.Assumptions = []string{
		"process death is modelled by SIGKILL at syscall entry (every boundary between two file-system effects); torn writes inside one write(2) are not produced",
		"fsync/durability after power loss is not part of the property (the code disclaims it)",
		"strace when= counters are per thread; the trace, not the plan, decides which step was hit, and unhit steps are retried and reported",
	}
	scratch := base.Scratch("C15")
	cli := base.BuildCLI(scratch)
	skill, tree, err := SkillTree()
	if err != nil {
		base.Fatalf("%v", err)
	}
	cfgs := []c15Config{
		{Agent: "goose", Prior: "fresh", Dest: func(root, s string) string { return filepath.Join(root, "proj/.agents/skills", s) }},
		{Agent: "claude-code", Args: []string{"--user"}, Prior: "older", Dest: func(root, s string) string { return filepath.Join(root, "home/.claude/skills", s) }},
	}
	if tier == "thorough" {
		cfgs = append(cfgs,
			c15Config{Agent: "cursor", Args: []string{"--path", "custom/dir"}, Prior: "partial", Dest: func(root, s string) string { return filepath.Join(root, "proj/custom/dir", s) }},
			c15Config{Agent: "opencode", Prior: "older", Dest: func(root, s string) string { return filepath.Join(root, "proj/.opencode/skill", s) }},
			c15Config{Agent: "goose", Args: []string{"--user"}, Prior: "fresh", Dest: func(root, s string) string { return filepath.Join(root, "home/.config/goose/skills", s) }},
			c15Config{Agent: "openai-codex", Args: []string{"--path", "custom/dir"}, Prior: "older", Dest: func(root, s string) string { return filepath.Join(root, "proj/custom/dir", s) }},
			c15Config{Agent: "factory", Prior: "partial", Dest: func(root, s string) string { return filepath.Join(root, "proj/.factory/skills", s) }},
			c15Config{Agent: "amp", Args: []string{"--user"}, Prior: "partial", Dest: func(root, s string) string { return filepath.Join(root, "home/.config/agents/skills", s) }},
			c15Config{Agent: "gemini-cli", Prior: "fresh", Dest: func(root, s string) string { return filepath.Join(root, "proj/.gemini/skills", s) }},
		)
	}
	allCovered := true
	for ci, cfg := range cfgs {
		if !runC15Config(rep, cli, scratch, ci, cfg, skill, tree) {
			allCovered = false
		}
	}
	rep.Exhaustive = allCovered
	rep.Finish()
}

// relFiles returns sorted relative names
func relFiles(tree map[string][]byte) []string {
	var out []string
	for k := range tree {
		out = append(out, k)
	}
	sort.Strings(out)
	return out
}

type prevState struct {
	present bool
	content string
	mode    os.FileMode
}

func prepare(root string, cfg c15Config, skill string, tree map[string][]byte) (string, map[string]prevState) {
	os.RemoveAll(root)
	os.MkdirAll(filepath.Join(root, "home"), 0o755)
	os.MkdirAll(filepath.Join(root, "proj"), 0o755)
	dest := cfg.Dest(root, skill)
	prev := map[string]prevState{}
	files := relFiles(tree)
	for i, rel := range files {
		st := prevState{}
		switch cfg.Prior {
		case "older":
			st = prevState{true, "PREVIOUS VERSION of " + rel + strings.Repeat("\nold line", 50*(i+1)), []os.FileMode{0o600, 0o444, 0o664, 0o400}[i%4]}
		case "partial":
			if i%2 == 0 {
				st = prevState{true, string(tree[rel]), 0o644} // already the new content
			} else if i%3 == 0 {
				st = prevState{true, "STALE " + rel, 0o640}
			}
		}
		if st.present {
			writeFileMode(filepath.Join(dest, rel), st.content, st.mode)
		}
		prev[rel] = st
	}
	return dest, prev
}

// installerSteps extracts the mutating steps under dest from a trace.
func installerSteps(evs []Event, dest string) ([]step, []Event) {
	var steps []step
	var sevs []Event
	ord := map[string]int{}
	for _, ev := range evs {
		if !ev.Mutating() && ev.Name != "close" {
			continue
		}
		t := stepTarget(ev, dest)
		if t == "" {
			continue
		}
		if ev.Name == "close" && !strings.Contains(t, ".tmp-") {
			// closing a descriptor of something that is not a temp file
			// (e.g. a directory opened for reading) is not an installation step
			if !isWrittenFile(evs, ev) {
				continue
			}
		}
		key := ev.Name + "|" + t
		ord[key]++
		steps = append(steps, step{ev.Name, t, ord[key]})
		sevs = append(sevs, ev)
	}
	return steps, sevs
}

func isWrittenFile(evs []Event, c Event) bool {
	ps := c.Paths()
	if len(ps) == 0 {
		return false
	}
	for _, ev := range evs {
		if (ev.Name == "openat" || ev.Name == "open") && ev.Mutating() {
			for _, p := range ev.Paths() {
				if p == ps[0] {
					return true
				}
			}
		}
	}
	return false
}

// stepTarget gives the event's target relative to the directory that will
// contain dest's ancestors (so ancestor mkdirs are steps too); temp names are
// normalised to "<dir>/.tmp-*". "" if the event does not concern the
// destination.
func stepTarget(ev Event, dest string) string {
	for _, p := range ev.Paths() {
		if under(p, dest) || ((ev.Name == "mkdirat" || ev.Name == "mkdir") && under(dest, p)) {
			rel, err := filepath.Rel(dest, p)
			if err != nil {
				continue
			}
			b := filepath.Base(rel)
			if strings.HasPrefix(b, ".tmp-") {
				rel = filepath.Join(filepath.Dir(rel), ".tmp-*")
			}
			if ev.Name == "renameat" || ev.Name == "renameat2" || ev.Name == "rename" || ev.Name == "linkat" {
				// name the step by its final target
				ps := ev.Paths()
				last := ps[len(ps)-1]
				if r2, err := filepath.Rel(dest, last); err == nil {
					return r2
				}
			}
			return rel
		}
	}
	return ""
}

func errnosFor(name string, thorough bool) []string {
	var e []string
	switch name {
	case "mkdirat", "mkdir":
		e = []string{"EACCES", "ENOSPC"}
	case "openat", "open":
		e = []string{"EACCES", "EMFILE"}
	case "write", "pwrite64", "writev":
		e = []string{"ENOSPC", "EIO"}
	case "fsync", "fdatasync":
		e = []string{"EIO", "ENOSPC"}
	case "close":
		e = []string{"EIO", "EDQUOT"}
	case "fchmodat", "fchmod", "chmod", "fchmodat2":
		e = []string{"EPERM", "EROFS"}
	case "renameat", "renameat2", "rename", "linkat":
		e = []string{"EXDEV", "EACCES"}
	default:
		e = []string{"EIO"}
	}
	if !thorough {
		return e[:1]
	}
	return e
}

// checkDestStates verifies every destination file is absent (if it was),
// entirely previous, or entirely new with final permissions. Returns problems
// and the number of files in the new state.
func checkDestStates(dest string, tree map[string][]byte, prev map[string]prevState) ([]string, int) {
	var probs []string
	newCount := 0
	for rel, want := range tree {
		p := filepath.Join(dest, rel)
		st, err := os.Lstat(p)
		pv := prev[rel]
		if err != nil {
			if pv.present {
				probs = append(probs, fmt.Sprintf("%s: previously present, now missing", rel))
			}
			continue
		}
		if !st.Mode().IsRegular() {
			probs = append(probs, fmt.Sprintf("%s: not a regular file", rel))
			continue
		}
		b, _ := os.ReadFile(p)
		isNew := string(b) == string(want) && st.Mode().Perm() == 0o644
		isPrev := pv.present && string(b) == pv.content && st.Mode().Perm() == pv.mode.Perm()
		switch {
		case isNew:
			newCount++
		case isPrev:
		default:
			desc := "mixed/unknown content"
			if string(b) == string(want) {
				desc = fmt.Sprintf("new content but mode %o", st.Mode().Perm())
			} else if pv.present && string(b) == pv.content {
				desc = fmt.Sprintf("previous content but mode %o (was %o)", st.Mode().Perm(), pv.mode.Perm())
			} else if len(b) == 0 {
				desc = "truncated to 0 bytes"
			} else if strings.HasPrefix(string(want), string(b)) {
				desc = fmt.Sprintf("truncated new content (%d of %d bytes)", len(b), len(want))
			}
			probs = append(probs, fmt.Sprintf("%s: %s", rel, desc))
		}
	}
	sort.Strings(probs)
	return probs, newCount
}

func tempLeft(root string) []string {
	var out []string
	filepath.Walk(root, func(p string, info os.FileInfo, err error) error {
		if err == nil && !info.IsDir() && strings.HasPrefix(filepath.Base(p), ".tmp-") {
			out = append(out, p)
		}
		return nil
	})
	return out
}

// foreignLeft lists regular files under dest that are neither skill files
// nor pre-existing.
func foreignLeft(dest string, tree map[string][]byte) []string {
	var out []string
	filepath.Walk(dest, func(p string, info os.FileInfo, err error) error {
		if err != nil || info.IsDir() {
			return nil
		}
		rel, _ := filepath.Rel(dest, p)
		if _, ok := tree[rel]; !ok {
			out = append(out, rel)
		}
		return nil
	})
	return out
}

func runC15Config(rep *base.Report, cli, scratch string, ci int, cfg c15Config, skill string, tree map[string][]byte) bool {
	cfgName := fmt.Sprintf("%s%v/%s", cfg.Agent, cfg.Args, cfg.Prior)
	args := append([]string{"llm-setup", cfg.Agent}, cfg.Args...)
	root0 := filepath.Join(scratch, fmt.Sprintf("c15-%d-base", ci))
	dest0, _ := prepare(root0, cfg, skill, tree)
	log0 := filepath.Join(scratch, fmt.Sprintf("c15-%d-base.strace", ci))
	out0 := RunCLI(cli, filepath.Join(root0, "proj"), filepath.Join(root0, "home"), "022", true, "", log0, args...)
	if out0.Exit != 0 {
		rep.Violate(base.Violation{Sig: "C15/fault-free-run-failed", What: cfgName + ": " + out0.Stderr, Files: map[string]string{"strace.log": out0.Log}})
		return false
	}
	// the fault-free run over this prior state (for "partial": the state an
	// interrupted installation leaves) is itself the "later successful run":
	// complete tree, final modes, nothing temporary left
	if stray := append(relAll(root0, tempLeft(root0)), foreignLeft(dest0, tree)...); len(stray) > 0 {
		sort.Strings(stray)
		rep.Violate(base.Violation{Sig: "C15/successful-run-leaves-temporary-file/" + cfg.Prior, What: fmt.Sprintf("%s: exit 0 but temporary/stray files remain: %v", cfgName, stray), Files: map[string]string{"strace.log": out0.Log}})
		os.RemoveAll(root0)
		return false
	}
	if probs0, n0 := checkDestStates(dest0, tree, map[string]prevState{}); len(probs0) > 0 || n0 != len(tree) {
		rep.Violate(base.Violation{Sig: "C15/successful-run-incomplete/" + cfg.Prior, What: fmt.Sprintf("%s: exit 0 but %v (installed %d/%d)", cfgName, probs0, n0, len(tree)), Files: map[string]string{"strace.log": out0.Log}})
		os.RemoveAll(root0)
		return false
	}
	steps0, _ := installerSteps(out0.Events, dest0)
	os.RemoveAll(root0)
	if len(steps0) == 0 {
		rep.Inconc(cfgName + ": no installer step seen in the fault-free trace")
		return false
	}
	// universe of steps and per-name totals (over the whole process, all threads)
	universe := map[string]bool{}
	names := map[string]int{}
	for _, s := range steps0 {
		universe[s.String()] = true
	}
	for _, ev := range out0.Events {
		names[ev.Name]++
	}
	stepNames := map[string]bool{}
	for _, s := range steps0 {
		stepNames[s.Name] = true
	}
	rep.Count("installer_steps_in_fault_free_traces", len(steps0))

	type plan struct {
		name string
		k    int
		kind string // KILL or errno
	}
	var plans []plan
	var snames []string
	for n := range stepNames {
		snames = append(snames, n)
	}
	sort.Strings(snames)
	thorough := rep.Tier == "thorough"
	for _, n := range snames {
		for k := 1; k <= names[n]+1; k++ {
			plans = append(plans, plan{n, k, "KILL"})
			for _, e := range errnosFor(n, thorough) {
				plans = append(plans, plan{n, k, e})
			}
		}
	}
	var markMu sync.Mutex
	killCovered := map[string]bool{}
	errCovered := map[string]bool{}
	runPlan := func(pi int, pl plan) {
		root := filepath.Join(scratch, fmt.Sprintf("c15-%d-%d", ci, pi))
		dest, prev := prepare(root, cfg, skill, tree)
		defer os.RemoveAll(root)
		logp := filepath.Join(scratch, fmt.Sprintf("c15-%d-%d.strace", ci, pi))
		defer os.Remove(logp)
		inj := fmt.Sprintf("%s:error=%s:when=%d", pl.name, pl.kind, pl.k)
		if pl.kind == "KILL" {
			inj = fmt.Sprintf("%s:signal=KILL:when=%d", pl.name, pl.k)
		}
		out := RunCLI(cli, filepath.Join(root, "proj"), filepath.Join(root, "home"), "022", true, inj, logp, args...)
		rep.Count("injected_runs", 1)
		steps, sevs := installerSteps(out.Events, dest)
		if pl.kind == "KILL" {
			killed := false
			for _, e := range out.Ends {
				if strings.Contains(e, "killed by SIGKILL") {
					killed = true
				}
			}
			if !killed {
				rep.Eval("")
				return // k beyond the calls of any thread: a complete run
			}
			// the step being entered is the unfinished one (Ret == "?")
			hit := "before-first-step"
			for i, ev := range sevs {
				if ev.Ret == "?" || strings.HasPrefix(ev.Ret, "?") {
					hit = steps[i].String()
				}
			}
			if hit == "before-first-step" && len(steps) > 0 {
				hit = "after:" + steps[len(steps)-1].String()
			}
			rep.Eval(fmt.Sprintf("%s|KILL|%s", cfgName, hit))
			markMu.Lock()
			killCovered[hit] = true
			markMu.Unlock()
			probs, newCount := checkDestStates(dest, tree, prev)
			if len(probs) > 0 {
				rep.Violate(base.Violation{Sig: "C15/crash/" + classify15(probs[0]) + "/at-" + pl.name,
					What:  fmt.Sprintf("%s: SIGKILL at entry of %s (inject %s): %s", cfgName, hit, inj, strings.Join(probs, "; ")),
					Files: map[string]string{"strace.log": out.Log, "case.txt": fmt.Sprintf("config=%s\nargs=%v\ninject=%s\nhit=%s\nproblems=%v\n", cfgName, args, inj, hit, probs)}})
				return
			}
			// a later fault-free run completes the installation (and, being a
			// successful run, adds no temporary or stray file of its own; what
			// the crash itself left behind may stay)
			strayBefore := map[string]bool{}
			for _, f := range append(relAll(root, tempLeft(root)), foreignLeft(dest, tree)...) {
				strayBefore[f] = true
			}
			r2 := RunCLI(cli, filepath.Join(root, "proj"), filepath.Join(root, "home"), "022", false, "", "", args...)
			var strayNew []string
			for _, f := range append(relAll(root, tempLeft(root)), foreignLeft(dest, tree)...) {
				if !strayBefore[f] {
					strayNew = append(strayNew, f)
				}
			}
			if r2.Exit == 0 && len(strayNew) > 0 {
				sort.Strings(strayNew)
				rep.Violate(base.Violation{Sig: "C15/crash/rerun-leaves-temporary-file/at-" + pl.name,
					What:  fmt.Sprintf("%s: after SIGKILL at %s the next (successful) run left new temporary/stray files behind: %v", cfgName, hit, strayNew),
					Files: map[string]string{"strace.log": out.Log}})
				return
			}
			probs2, new2 := checkDestStates(dest, tree, map[string]prevState{})
			if r2.Exit != 0 || len(probs2) > 0 || new2 != len(tree) {
				rep.Violate(base.Violation{Sig: "C15/crash/rerun-does-not-complete/at-" + pl.name,
					What:  fmt.Sprintf("%s: after SIGKILL at %s the next run: exit %d stderr=%q problems=%v installed=%d/%d", cfgName, hit, r2.Exit, r2.Stderr, probs2, new2, len(tree)),
					Files: map[string]string{"strace.log": out.Log}})
				return
			}
			if !strings.Contains(hit, "(") || strings.HasPrefix(hit, "after:") {
				return
			}
			rep.Sample(map[string]any{"config": cfgName, "fault": "SIGKILL", "at": hit, "files_new_after_crash": newCount, "rerun_exit": r2.Exit})
			return
		}
		// error injection
		var hitIdx = -1
		nInj := 0
		for _, ev := range out.Events {
			if ev.Injected {
				nInj++
			}
		}
		for i, ev := range sevs {
			if ev.Injected {
				hitIdx = i
			}
		}
		if nInj == 0 {
			rep.Eval("")
			return
		}
		if hitIdx < 0 || nInj > 1 {
			// injected into a call that is not an installer step (runtime
			// start-up, reads) or into several calls: outside the premise
			rep.Eval("")
			rep.Count("injections_not_on_installer_steps", 1)
			return
		}
		hit := steps[hitIdx].String()
		rep.Eval(fmt.Sprintf("%s|%s|%s", cfgName, pl.kind, hit))
		markMu.Lock()
		errCovered[hit] = true
		markMu.Unlock()
		var probs []string
		if out.Exit == 0 {
			probs = append(probs, "exit status 0 although "+hit+" failed")
		}
		if strings.TrimSpace(out.Stderr) == "" {
			probs = append(probs, "nothing reported on stderr")
		}
		if t := tempLeft(root); len(t) > 0 {
			probs = append(probs, fmt.Sprintf("temporary file left behind: %v", relAll(root, t)))
		}
		if f := foreignLeft(dest, tree); len(f) > 0 {
			probs = append(probs, fmt.Sprintf("stray file left in destination: %v", f))
		}
		sp, _ := checkDestStates(dest, tree, prev)
		probs = append(probs, sp...)
		// the file in flight must still be its previous version
		inflight := inflightFile(steps, hitIdx, tree)
		if inflight != "" {
			pv := prev[inflight]
			st, err := os.Lstat(filepath.Join(dest, inflight))
			b, _ := os.ReadFile(filepath.Join(dest, inflight))
			switch {
			case !pv.present && err == nil:
				probs = append(probs, inflight+": created although its installation failed")
			case pv.present && (err != nil || string(b) != pv.content || st.Mode().Perm() != pv.mode.Perm()):
				if !(string(b) == string(tree[inflight]) && pv.content == string(tree[inflight])) {
					probs = append(probs, inflight+": previous version not intact after failed installation")
				}
			}
		}
		if len(probs) > 0 {
			rep.Violate(base.Violation{Sig: "C15/error/" + classify15(probs[0]) + "/at-" + pl.name,
				What:  fmt.Sprintf("%s: %s failing with %s: %s", cfgName, hit, pl.kind, strings.Join(probs, "; ")),
				Files: map[string]string{"strace.log": out.Log, "case.txt": fmt.Sprintf("config=%s\nargs=%v\ninject=%s\nhit=%s\nexit=%d\nstderr=%s\nproblems=%v\n", cfgName, args, inj, hit, out.Exit, out.Stderr, probs)}})
			return
		}
		rep.Sample(map[string]any{"config": cfgName, "fault": pl.kind, "at": hit, "exit": out.Exit, "stderr": strings.TrimSpace(out.Stderr)})
	}
	base.Parallel(len(plans), 16, func(i int) { runPlan(i, plans[i]) })
	// retry unhit steps a few times with the same plans (thread migration varies)
	missing := func() (int, int) {
		mk, me := 0, 0
		for s := range universe {
			if !killCovered[s] {
				mk++
			}
			if !errCovered[s] && !strings.HasPrefix(s, "unlinkat") {
				me++
			}
		}
		return mk, me
	}
	for round := 0; round < 8; round++ {
		mk, me := missing()
		if mk == 0 && me == 0 {
			break
		}
		needKill, needErr := map[string]bool{}, map[string]bool{}
		for s := range universe {
			n := s[:strings.Index(s, "(")]
			if !killCovered[s] {
				needKill[n] = true
			}
			if !errCovered[s] {
				needErr[n] = true
			}
		}
		var again []plan
		for _, pl := range plans {
			if pl.kind == "KILL" && needKill[pl.name] || pl.kind != "KILL" && needErr[pl.name] {
				again = append(again, pl)
			}
		}
		rep.Count("retry_runs_for_unhit_steps", len(again))
		base.Parallel(len(again), 16, func(i int) { runPlan(len(plans)*(round+1)+i, again[i]) })
	}
	mk, me := missing()
	var never []string
	for s := range universe {
		if !killCovered[s] {
			never = append(never, "kill:"+s)
		}
		if !errCovered[s] && !strings.HasPrefix(s, "unlinkat") {
			never = append(never, "err:"+s)
		}
	}
	sort.Strings(never)
	if len(never) > 0 {
		rep.Cov["steps_never_hit:"+cfgName] = never
	}
	rep.Count("steps_total", len(universe))
	rep.Count("steps_never_hit_by_kill", mk)
	rep.Count("steps_never_hit_by_error", me)
	return mk == 0 && me == 0
}

func relAll(root string, ps []string) []string {
	var out []string
	for _, p := range ps {
		r, _ := filepath.Rel(root, p)
		out = append(out, r)
	}
	return out
}

// inflightFile: the skill file whose installation the hit step belongs to =
// target of the next rename at or after the hit step.
func inflightFile(steps []step, hit int, tree map[string][]byte) string {
	s := steps[hit]
	if _, ok := tree[s.Target]; ok {
		return s.Target
	}
	// faulting run stops at the failure: derive from directory + order of
	// files: count renames completed so far within the same directory
	dir := filepath.Dir(s.Target)
	done := map[string]bool{}
	for i := 0; i < hit; i++ {
		if _, ok := tree[steps[i].Target]; ok && strings.HasPrefix(steps[i].Name, "rename") {
			done[steps[i].Target] = true
		}
	}
	if !strings.Contains(s.Target, ".tmp-") {
		return ""
	}
	for _, rel := range relFiles(tree) {
		if filepath.Dir(rel) == dir && !done[rel] {
			return rel
		}
	}
	return ""
}

func classify15(p string) string {
	for _, k := range []string{"truncated", "mixed", "new content but mode", "previous content but mode", "previously present, now missing", "exit status 0", "nothing reported", "temporary file", "stray file", "created although", "previous version not intact", "not a regular"} {
		if strings.Contains(p, k) {
			return strings.ReplaceAll(strings.ReplaceAll(k, " ", "-"), ",", "")
		}
	}
	return "other"
}
