// Package base: environment, scratch directories, process helpers, findings
// classifier and evidence writer shared by every check.
package base

import (
	"bufio"
	"bytes"
	"context"
	"crypto/sha256"
	"encoding/hex"
	"encoding/json"
	"fmt"
	"os"
	"os/exec"
	"path/filepath"
	"sort"
	"strconv"
	"strings"
	"sync"
	"syscall"
	"time"
)

var (
	VerifDir = "/verif"
	RepoDir  = "/repo"
	Start    = time.Now()
)

// GoBin is the directory of the go toolchain used for everything.
var GoBin string

func init() {
	if v := os.Getenv("VERIF_DIR"); v != "" {
		VerifDir = v
	}
	if v := os.Getenv("VERIF_REPO"); v != "" {
		RepoDir = v
	}
	for _, c := range []string{
		"/root/go/pkg/mod/golang.org/toolchain@v0.0.1-go1.25.5.linux-amd64/bin",
		"/opt/veriftools/go1.26.8/bin",
		"/root/go/pkg/mod/golang.org/toolchain@v0.0.1-go1.26.8.linux-amd64/bin",
	} {
		if st, err := os.Stat(filepath.Join(c, "go")); err == nil && !st.IsDir() {
			GoBin = c
			break
		}
	}
	if GoBin != "" {
		os.Setenv("PATH", GoBin+":"+os.Getenv("PATH"))
	}
	os.Setenv("GOTOOLCHAIN", "local")
	os.Setenv("GOPROXY", "off")
	os.Setenv("GOSUMDB", "off")
	os.Setenv("GOFLAGS", "")
	os.Unsetenv("GOWORK")
	os.Setenv("GONOSUMDB", "*")
	os.Setenv("GOTELEMETRY", "off")
}

// Seed returns VERIF_SEED (default 1).
func Seed() int64 {
	if v := os.Getenv("VERIF_SEED"); v != "" {
		if n, err := strconv.ParseInt(v, 10, 64); err == nil {
			return n
		}
	}
	return 1
}

// ---------------------------------------------------------------- scratch

var scratchDir string

// Scratch creates the per-invocation scratch directory.
func Scratch(prop string) string {
	if scratchDir != "" {
		return scratchDir
	}
	root := os.Getenv("VERIF_SCRATCH")
	if root == "" {
		root = os.TempDir()
	}
	d := filepath.Join(root, fmt.Sprintf("vk-%s-%d", prop, os.Getpid()))
	os.RemoveAll(d)
	if err := os.MkdirAll(d, 0o755); err != nil {
		Fatalf("scratch: %v", err)
	}
	scratchDir = d
	UsePrivateGoCache(d)
	return d
}

// BaseCache is the Go build cache prepared by setup.sh (standard library
// and fixed dependencies, with and without -race). Every invocation works on
// a hard-linked private copy inside its scratch directory, so the thousands
// of throw-away program packages it compiles never accumulate anywhere.
func BaseCache() string { return filepath.Join(VerifDir, "bin", "gocache") }

// UsePrivateGoCache points GOCACHE at a per-invocation copy of the base cache.
func UsePrivateGoCache(scratch string) {
	priv := filepath.Join(scratch, "gocache")
	bc := BaseCache()
	if st, err := os.Stat(bc); err == nil && st.IsDir() {
		r := Cmd{Name: "cp", Args: []string{"-al", bc, priv}}.Run()
		if r.Exit != 0 {
			os.RemoveAll(priv)
			Cmd{Name: "cp", Args: []string{"-a", bc, priv}}.Run()
		}
	}
	os.MkdirAll(priv, 0o755)
	os.Setenv("GOCACHE", priv)
}

// ResetPrivateGoCache drops everything compiled so far in this invocation
// (called between batches: a batch's packages are never compiled again).
func ResetPrivateGoCache() {
	if scratchDir == "" {
		return
	}
	os.RemoveAll(filepath.Join(scratchDir, "gocache"))
	UsePrivateGoCache(scratchDir)
}

// Cleanup removes the scratch directory unless VERIF_KEEP is set.
func Cleanup() {
	if scratchDir != "" && os.Getenv("VERIF_KEEP") == "" {
		os.RemoveAll(scratchDir)
	}
}

func Fatalf(f string, a ...any) {
	fmt.Fprintf(os.Stderr, "INCONCLUSIVE (harness error): "+f+"\n", a...)
	Cleanup()
	os.Exit(2)
}

// ---------------------------------------------------------------- processes

type Result struct {
	Stdout, Stderr string
	Exit           int
	TimedOut       bool
	CPU            time.Duration // user+system time of the process (also when it was killed)
	Dur            time.Duration
}

type Cmd struct {
	Dir           string
	Env           []string // extra KEY=VAL
	Timeout       time.Duration
	Stdin         string
	DumpOnTimeout bool
	Name          string
	Args          []string
}

func (c Cmd) Run() Result {
	to := c.Timeout
	if to == 0 {
		to = 10 * time.Minute
	}
	ctx, cancel := context.WithTimeout(context.Background(), to)
	defer cancel()
	cmd := exec.CommandContext(ctx, c.Name, c.Args...)
	cmd.Dir = c.Dir
	cmd.Env = append(os.Environ(), c.Env...)
	cmd.SysProcAttr = &syscall.SysProcAttr{Setpgid: true}
	cmd.Cancel = func() error { return syscall.Kill(-cmd.Process.Pid, syscall.SIGKILL) }
	if c.DumpOnTimeout {
		// a Go program prints its goroutine stacks on SIGQUIT and exits
		cmd.Cancel = func() error { return syscall.Kill(cmd.Process.Pid, syscall.SIGQUIT) }
		cmd.WaitDelay = 20 * time.Second
	}
	var so, se bytes.Buffer
	cmd.Stdout, cmd.Stderr = &so, &se
	if c.Stdin != "" {
		cmd.Stdin = strings.NewReader(c.Stdin)
	}
	t0 := time.Now()
	err := cmd.Run()
	r := Result{Stdout: so.String(), Stderr: se.String(), Dur: time.Since(t0)}
	if cmd.ProcessState != nil {
		r.CPU = cmd.ProcessState.UserTime() + cmd.ProcessState.SystemTime()
	}
	if ctx.Err() != nil {
		r.TimedOut = true
		r.Exit = -1
		return r
	}
	if err != nil {
		if ee, ok := err.(*exec.ExitError); ok {
			r.Exit = ee.ExitCode()
		} else {
			r.Exit = -2
			r.Stderr += "\nexec error: " + err.Error()
		}
	}
	return r
}

func Run(dir string, name string, args ...string) Result {
	return Cmd{Dir: dir, Name: name, Args: args}.Run()
}

// BuildCLI builds the kessoku CLI from the repository's working tree (hooks
// tag on) without touching go.work.sum.
func BuildCLI(scratch string) string {
	out := filepath.Join(scratch, "bin", "kessoku")
	os.MkdirAll(filepath.Dir(out), 0o755)
	r := Cmd{Dir: RepoDir, Env: []string{"GOWORK=off", "GOFLAGS=-mod=readonly"}, Name: "go",
		Args: []string{"build", "-tags", "verif", "-o", out, "./cmd/kessoku"}}.Run()
	if r.Exit != 0 {
		Fatalf("cannot build kessoku CLI from %s: %s", RepoDir, r.Stderr)
	}
	return out
}

// Parallel runs f(i) for i in [0,n) on up to w workers.
func Parallel(n, w int, f func(i int)) {
	if w <= 0 {
		w = 16
	}
	var wg sync.WaitGroup
	ch := make(chan int)
	for k := 0; k < w; k++ {
		wg.Add(1)
		go func() {
			defer wg.Done()
			for i := range ch {
				f(i)
			}
		}()
	}
	for i := 0; i < n; i++ {
		ch <- i
	}
	close(ch)
	wg.Wait()
}

func Sha(b []byte) string {
	h := sha256.Sum256(b)
	return hex.EncodeToString(h[:8])
}

func WriteFile(path, content string) {
	os.MkdirAll(filepath.Dir(path), 0o755)
	if err := os.WriteFile(path, []byte(content), 0o644); err != nil {
		Fatalf("write %s: %v", path, err)
	}
}

// CopyTree copies a directory tree (regular files and dirs only).
func CopyTree(src, dst string) error {
	return filepath.Walk(src, func(p string, info os.FileInfo, err error) error {
		if err != nil {
			return err
		}
		rel, _ := filepath.Rel(src, p)
		t := filepath.Join(dst, rel)
		if info.IsDir() {
			return os.MkdirAll(t, 0o755)
		}
		if !info.Mode().IsRegular() {
			return nil
		}
		b, err := os.ReadFile(p)
		if err != nil {
			return err
		}
		return os.WriteFile(t, b, info.Mode().Perm())
	})
}

// ---------------------------------------------------------------- findings

type Known struct {
	Prop, Sig, What string
}

// LoadKnown reads KNOWN_FINDINGS.txt ("known: property=<id> sig=<sig> <what>").
func LoadKnown() []Known {
	var out []Known
	f, err := os.Open(filepath.Join(VerifDir, "KNOWN_FINDINGS.txt"))
	if err != nil {
		return nil
	}
	defer f.Close()
	sc := bufio.NewScanner(f)
	for sc.Scan() {
		l := strings.TrimSpace(sc.Text())
		if !strings.HasPrefix(l, "known:") {
			continue
		}
		fs := strings.Fields(strings.TrimPrefix(l, "known:"))
		k := Known{}
		rest := []string{}
		for _, x := range fs {
			switch {
			case strings.HasPrefix(x, "property=") && k.Prop == "":
				k.Prop = strings.TrimPrefix(x, "property=")
			case strings.HasPrefix(x, "sig=") && k.Sig == "":
				k.Sig = strings.TrimPrefix(x, "sig=")
			default:
				rest = append(rest, x)
			}
		}
		k.What = strings.Join(rest, " ")
		if k.Prop != "" && k.Sig != "" {
			out = append(out, k)
		}
	}
	return out
}

// Violation is one witness.
type Violation struct {
	Sig    string            // signature computed from the witness
	What   string            // human text
	Files  map[string]string // replay material (name -> content)
	Sample any
}

// Report accumulates the outcome of one check invocation.
type Report struct {
	mu           sync.Mutex
	Prop, Tier   string
	Level        string
	known        []Known
	KnownHits    map[string]int
	knownWhat    map[string]string
	Violations   []Violation
	Inconclusive []string
	Cov          map[string]any
	Samples      []any
	distinct     map[string]struct{}
	Evaluations  int
	Rule         string
	Assumptions  []string
	Exhaustive   bool
	counters     map[string]int
	sampleKeys   map[string]bool
}

func NewReport(prop, tier, level string) *Report {
	r := &Report{Prop: prop, Tier: tier, Level: level, KnownHits: map[string]int{}, knownWhat: map[string]string{},
		Cov: map[string]any{}, distinct: map[string]struct{}{}, counters: map[string]int{}}
	for _, k := range LoadKnown() {
		if k.Prop == prop {
			r.known = append(r.known, k)
		}
	}
	return r
}

// IsKnown tells whether sig is listed as a known finding for this property.
func (r *Report) IsKnown(sig string) bool {
	for _, k := range r.known {
		if k.Sig == sig {
			return true
		}
	}
	return false
}

// Violate records a violation witness; classified as KNOWN-FINDING if its
// signature is listed.
func (r *Report) Violate(v Violation) {
	r.mu.Lock()
	defer r.mu.Unlock()
	for _, k := range r.known {
		if k.Sig == v.Sig {
			r.KnownHits[v.Sig]++
			r.knownWhat[v.Sig] = k.What
			return
		}
	}
	r.Violations = append(r.Violations, v)
}

func (r *Report) Inconc(why string) {
	r.mu.Lock()
	r.Inconclusive = append(r.Inconclusive, why)
	r.mu.Unlock()
}

// Eval counts one evaluation; key identifies the distinct non-trivial case
// ("" = trivial).
func (r *Report) Eval(key string) {
	r.mu.Lock()
	r.Evaluations++
	if key != "" {
		r.distinct[key] = struct{}{}
	}
	r.mu.Unlock()
}

func (r *Report) Count(k string, n int) {
	r.mu.Lock()
	r.counters[k] += n
	r.mu.Unlock()
}

func (r *Report) Counter(k string) int {
	r.mu.Lock()
	defer r.mu.Unlock()
	return r.counters[k]
}

func (r *Report) Sample(s any) {
	r.mu.Lock()
	defer r.mu.Unlock()
	if len(r.Samples) >= 6 {
		return
	}
	b, _ := json.Marshal(s)
	k := string(b)
	if len(k) > 160 {
		k = k[:160] // near-duplicates (same case, other nonce) are not informative
	}
	if r.sampleKeys == nil {
		r.sampleKeys = map[string]bool{}
	}
	if r.sampleKeys[k] {
		return
	}
	r.sampleKeys[k] = true
	r.Samples = append(r.Samples, s)
}

// Finish prints verdict lines, writes evidence and replays, and exits.
func (r *Report) Finish() {
	exit := 0
	sigs := make([]string, 0, len(r.KnownHits))
	for s := range r.KnownHits {
		sigs = append(sigs, s)
	}
	sort.Strings(sigs)
	for _, s := range sigs {
		fmt.Printf("KNOWN-FINDING: property=%s sig=%s hits=%d %s\n", r.Prop, s, r.KnownHits[s], r.knownWhat[s])
	}
	// group violations by signature, write at most 3 replays per signature
	bySig := map[string]int{}
	for i, v := range r.Violations {
		bySig[v.Sig]++
		exit = 1
		if bySig[v.Sig] > 2 || len(bySig) > 8 {
			continue
		}
		dir := filepath.Join(VerifDir, "replays", r.Prop, fmt.Sprintf("%s-%d", sanitize(v.Sig), i))
		os.RemoveAll(dir)
		os.MkdirAll(dir, 0o755)
		os.WriteFile(filepath.Join(dir, "WHAT.txt"), []byte(v.Sig+"\n"+v.What+"\n"), 0o644)
		for n, c := range v.Files {
			p := filepath.Join(dir, n)
			os.MkdirAll(filepath.Dir(p), 0o755)
			os.WriteFile(p, []byte(c), 0o644)
		}
		fmt.Printf("VIOLATION property=%s replay=%s sig=%s :: %s\n", r.Prop, dir, v.Sig, firstLine(v.What))
		exit = 1
	}
	for s, n := range bySig {
		if n > 2 {
			fmt.Printf("  (%d more violations with sig=%s)\n", n-2, s)
		}
	}
	if len(r.Inconclusive) > 0 {
		for i, w := range r.Inconclusive {
			if i < 10 {
				fmt.Printf("INCONCLUSIVE property=%s %s\n", r.Prop, w)
			}
		}
	}
	nd := len(r.distinct)
	if exit == 0 && (r.Evaluations == 0 || nd < 2) {
		fmt.Printf("INCONCLUSIVE property=%s observed too little (evaluations=%d distinct=%d)\n", r.Prop, r.Evaluations, nd)
		exit = 2
	}
	cov := map[string]any{}
	for k, v := range r.Cov {
		cov[k] = v
	}
	for k, v := range r.counters {
		cov[k] = v
	}
	cov["evaluations"] = r.Evaluations
	cov["distinct_nontrivial"] = nd
	cov["rule"] = r.Rule
	if len(r.Samples) == 0 {
		r.Samples = []any{"(none)"}
	}
	cov["samples"] = r.Samples
	cov["exhaustive"] = r.Exhaustive
	cov["known_finding_hits"] = r.KnownHits
	cov["inconclusive"] = len(r.Inconclusive)
	ev := map[string]any{
		"property_id": r.Prop, "tier": r.Tier, "seed": Seed(), "level": r.Level,
		"coverage": cov, "assumptions": r.Assumptions,
		"wall_s": time.Since(Start).Seconds(), "violations": len(r.Violations),
	}
	b, _ := json.MarshalIndent(ev, "", " ")
	os.MkdirAll(filepath.Join(VerifDir, "evidence"), 0o755)
	if err := os.WriteFile(filepath.Join(VerifDir, "evidence", r.Prop+".json"), b, 0o644); err != nil {
		fmt.Fprintln(os.Stderr, "cannot write evidence:", err)
	}
	fmt.Printf("RESULT property=%s tier=%s seed=%d evaluations=%d distinct=%d violations=%d known=%d inconclusive=%d wall=%.1fs\n",
		r.Prop, r.Tier, Seed(), r.Evaluations, nd, len(r.Violations), len(r.KnownHits), len(r.Inconclusive), time.Since(Start).Seconds())
	Cleanup()
	os.Exit(exit)
}

func sanitize(s string) string {
	var b strings.Builder
	for _, c := range s {
		if c >= 'a' && c <= 'z' || c >= 'A' && c <= 'Z' || c >= '0' && c <= '9' || c == '-' || c == '_' || c == '.' {
			b.WriteRune(c)
		} else {
			b.WriteByte('_')
		}
	}
	x := b.String()
	if len(x) > 80 {
		x = x[:80]
	}
	return x
}

func firstLine(s string) string {
	if i := strings.IndexByte(s, '\n'); i >= 0 {
		return s[:i]
	}
	return s
}
