// Package runner: scratch module management, running the real generator,
// building the instrumented runner binary under -race and executing
// scenarios in child processes.
package runner

import (
	_ "embed"
	"fmt"
	"os"
	"path/filepath"
	"regexp"
	"sort"
	"strings"
	"sync"
	"time"

	"vharness/internal/base"
	"vharness/internal/spec"
)

//go:embed probe_src/probe.go
var probeSrc string

type GenResult struct {
	Exit     int
	Stderr   string
	Files    []string // declaration files passed in this invocation
	Dur      time.Duration
	TimedOut bool          // still running at CLITimeout (it was sent SIGQUIT: Stderr carries the goroutine stacks)
	CPU      time.Duration // processor time it had consumed
}

// CLITimeout bounds one generator run (a run needs well under a second of
// processor time). What an expiry means is decided from the processor time
// the process consumed, not from the wall clock: see checks.hangVerdict.
const CLITimeout = 3 * time.Minute

type Prog struct {
	Spec     *spec.Spec
	Dir      string
	Gen      []GenResult
	GenOK    bool              // every invocation exited 0
	BuildErr string            // compile errors of the package (with generated files)
	PreErr   string            // compile errors of the user package alone (harness bug)
	Band     map[string]string // generated file name -> content
	Reg      string            // registration file, written after generation
	Dropped  int               // injectors dropped because their generated function did not compile
}

type Workspace struct {
	Root  string
	CLI   string
	Wire  string // google/wire CLI (wire workspaces only)
	Progs []*Prog
	mu    sync.Mutex
}

func NewWorkspace(scratch, cli string) *Workspace { return newWorkspace(scratch, cli, false) }

// NewWireWorkspace also requires google/wire and builds its CLI (bin/wire).
func NewWireWorkspace(scratch, cli string) *Workspace { return newWorkspace(scratch, cli, true) }

func newWorkspace(scratch, cli string, wire bool) *Workspace {
	w := &Workspace{Root: filepath.Join(scratch, "vk"), CLI: cli}
	os.MkdirAll(w.Root, 0o755)
	extra := ""
	if wire {
		extra = "\tgithub.com/google/wire v0.7.0\n\tgolang.org/x/tools v0.42.0\n"
	}
	gomod := fmt.Sprintf("module %s\n\ngo 1.24.0\n\nrequire (\n\tgithub.com/mazrean/kessoku v0.0.0\n\tgolang.org/x/sync v0.19.0\n%s)\n\nreplace github.com/mazrean/kessoku => %s\n", spec.ModulePath, extra, base.RepoDir)
	base.WriteFile(filepath.Join(w.Root, "go.mod"), gomod)
	sum, _ := os.ReadFile(filepath.Join(base.RepoDir, "go.sum"))
	os.WriteFile(filepath.Join(w.Root, "go.sum"), sum, 0o644)
	base.WriteFile(filepath.Join(w.Root, "probe", "probe.go"), probeSrc)
	base.WriteFile(filepath.Join(w.Root, "warm", "warm.go"), "package warm\n\nimport (\n\t_ \"github.com/mazrean/kessoku\"\n\t_ \"golang.org/x/sync/errgroup\"\n\t_ \"vk/probe\"\n)\n")
	if wire {
		base.WriteFile(filepath.Join(w.Root, "warm", "wire.go"), "package warm\n\nimport _ \"github.com/google/wire\"\n")
	}
	r := base.Cmd{Dir: w.Root, Env: []string{"GOFLAGS=-mod=mod"}, Name: "go", Args: []string{"build", "./..."}}.Run()
	if r.Exit != 0 {
		base.Fatalf("scratch module does not build: %s", r.Stderr)
	}
	if wire {
		w.Wire = filepath.Join(w.Root, "bin", "wire")
		os.MkdirAll(filepath.Dir(w.Wire), 0o755)
		r := base.Cmd{Dir: w.Root, Env: []string{"GOFLAGS=-mod=mod"}, Name: "go", Args: []string{"build", "-o", w.Wire, "github.com/google/wire/cmd/wire"}}.Run()
		if r.Exit != 0 {
			base.Fatalf("cannot build the wire CLI offline: %s", r.Stderr)
		}
	}
	return w
}

func (w *Workspace) Add(s *spec.Spec) *Prog {
	p := &Prog{Spec: s, Dir: filepath.Join(w.Root, "progs", s.Name), Band: map[string]string{}}
	for name, content := range s.Emit() {
		if name == "reg.go" {
			p.Reg = content
			continue
		}
		base.WriteFile(filepath.Join(p.Dir, name), content)
	}
	w.mu.Lock()
	w.Progs = append(w.Progs, p)
	w.mu.Unlock()
	return p
}

// Rewrite re-emits the program's sources from its (modified) spec.
func (w *Workspace) Rewrite(p *Prog) {
	os.RemoveAll(p.Dir)
	p.Band = map[string]string{}
	p.BuildErr = ""
	for name, content := range p.Spec.Emit() {
		if name == "reg.go" {
			p.Reg = content
			continue
		}
		base.WriteFile(filepath.Join(p.Dir, name), content)
	}
}

// BandName gives the output file name for a declaration file.
func BandName(f string) string {
	ext := filepath.Ext(f)
	return strings.TrimSuffix(f, ext) + "_band" + ext
}

// declFilesWithInjectors lists the declaration files that contain at least
// one Inject call (the generator writes no output for the others).
func declFilesWithInjectors(s *spec.Spec) []string {
	has := map[int]bool{}
	for _, in := range s.Injectors {
		has[in.File] = true
	}
	var out []string
	for i, f := range s.Files {
		if has[i] {
			out = append(out, f)
		}
	}
	return out
}

// Precheck compiles user packages without generated files (reg.go refers to
// the injectors, so it is set aside); failures are harness bugs.
func (w *Workspace) Precheck(progs []*Prog) {
	errs := w.buildPkgs(progs, false)
	for _, p := range progs {
		p.PreErr = errs[p.Spec.Name]
	}
}

// Generate runs the real CLI on every program: one invocation with all
// declaration files when oneInvocation is set, else one per file.
func (w *Workspace) Generate(progs []*Prog, oneInvocation bool) {
	base.Parallel(len(progs), 16, func(i int) {
		p := progs[i]
		w.GenerateOne(p, oneInvocation)
	})
}

func (w *Workspace) GenerateOne(p *Prog, oneInvocation bool) {
	p.Gen = nil
	p.GenOK = true
	files := declFilesWithInjectors(p.Spec)
	var invs [][]string
	if oneInvocation {
		invs = [][]string{files}
	} else {
		for _, f := range files {
			invs = append(invs, []string{f})
		}
	}
	for _, inv := range invs {
		r := base.Cmd{Dir: p.Dir, Name: w.CLI, Args: inv, Timeout: CLITimeout, DumpOnTimeout: true}.Run()
		p.Gen = append(p.Gen, GenResult{Exit: r.Exit, Stderr: r.Stderr, Files: inv, Dur: r.Dur, TimedOut: r.TimedOut, CPU: r.CPU})
		if r.Exit != 0 {
			p.GenOK = false
		}
	}
	for _, f := range files {
		b, err := os.ReadFile(filepath.Join(p.Dir, BandName(f)))
		if err == nil {
			p.Band[BandName(f)] = string(b)
		}
	}
	if p.Reg != "" && p.GenOK {
		base.WriteFile(filepath.Join(p.Dir, "reg.go"), p.Reg)
	}
}

// GenerateTogether runs ONE CLI invocation over the declaration files of two
// programs (different packages), from the workspace root.
func (w *Workspace) GenerateTogether(a, b *Prog) {
	var args []string
	for _, p := range []*Prog{a, b} {
		p.Gen = nil
		p.GenOK = true
		for _, f := range declFilesWithInjectors(p.Spec) {
			args = append(args, filepath.Join("progs", p.Spec.Name, f))
		}
	}
	r := base.Cmd{Dir: w.Root, Name: w.CLI, Args: args, Timeout: CLITimeout, DumpOnTimeout: true}.Run()
	for _, p := range []*Prog{a, b} {
		p.Gen = append(p.Gen, GenResult{Exit: r.Exit, Stderr: r.Stderr, Files: args, Dur: r.Dur, TimedOut: r.TimedOut, CPU: r.CPU})
		if r.Exit != 0 {
			p.GenOK = false
		}
		for _, f := range declFilesWithInjectors(p.Spec) {
			if bs, err := os.ReadFile(filepath.Join(p.Dir, BandName(f))); err == nil {
				p.Band[BandName(f)] = string(bs)
			}
		}
		if p.Reg != "" && p.GenOK {
			base.WriteFile(filepath.Join(p.Dir, "reg.go"), p.Reg)
		}
	}
}

var rePkgHdr = regexp.MustCompile(`(?m)^# (\S+)`)

// buildPkgs compiles the program packages; returns name -> compiler output
// for those that failed.
func (w *Workspace) buildPkgs(progs []*Prog, race bool) map[string]string {
	out := map[string]string{}
	// chunks keep command lines short and errors attributable
	var chunks [][]*Prog
	for i := 0; i < len(progs); i += 40 {
		j := i + 40
		if j > len(progs) {
			j = len(progs)
		}
		chunks = append(chunks, progs[i:j])
	}
	var mu sync.Mutex
	base.Parallel(len(chunks), 4, func(ci int) {
		args := []string{"build", "-gcflags=-e"}
		if race {
			args = append(args, "-race")
		}
		for _, p := range chunks[ci] {
			args = append(args, "./progs/"+p.Spec.Name+"/...")
		}
		r := base.Cmd{Dir: w.Root, Name: "go", Args: args, Timeout: 20 * time.Minute}.Run()
		if r.Exit == 0 {
			return
		}
		// split stderr by "# pkg" headers
		txt := r.Stderr
		idx := rePkgHdr.FindAllStringSubmatchIndex(txt, -1)
		mu.Lock()
		defer mu.Unlock()
		if len(idx) == 0 {
			for _, p := range chunks[ci] {
				out[p.Spec.Name] += "build failed without package header: " + txt
			}
			return
		}
		for k, m := range idx {
			pkg := txt[m[2]:m[3]]
			end := len(txt)
			if k+1 < len(idx) {
				end = idx[k+1][0]
			}
			body := txt[m[1]:end]
			rest := strings.TrimPrefix(pkg, spec.ModulePath+"/progs/")
			name := strings.SplitN(rest, "/", 2)[0]
			out[name] += strings.TrimSpace(body) + "\n"
		}
	})
	return out
}

// Build compiles all program packages (with generated files) and records
// compile errors per program.
func (w *Workspace) Build(progs []*Prog) {
	errs := w.buildPkgs(progs, false)
	for _, p := range progs {
		p.BuildErr = errs[p.Spec.Name]
	}
}

// BuildRunner links the runner with every runnable program.
func (w *Workspace) BuildRunner(progs []*Prog, name string) (string, []*Prog, error) {
	var ok []*Prog
	var b strings.Builder
	b.WriteString("package main\n\nimport (\n\t\"vk/probe\"\n")
	for _, p := range progs {
		if p.Spec.Dynamic && p.GenOK && p.BuildErr == "" && p.PreErr == "" && len(p.Band) > 0 {
			ok = append(ok, p)
			fmt.Fprintf(&b, "\t_ \"vk/progs/%s\"\n", p.Spec.Name)
		}
	}
	b.WriteString(")\n\nfunc main() { probe.Main() }\n")
	dir := filepath.Join(w.Root, "cmd", name)
	base.WriteFile(filepath.Join(dir, "main.go"), b.String())
	bin := filepath.Join(w.Root, "bin", name)
	os.MkdirAll(filepath.Dir(bin), 0o755)
	r := base.Cmd{Dir: w.Root, Name: "go", Args: []string{"build", "-race", "-o", bin, "./cmd/" + name}, Timeout: 30 * time.Minute}.Run()
	if r.Exit != 0 {
		return "", nil, fmt.Errorf("runner build failed: %s", r.Stderr)
	}
	return bin, ok, nil
}

// BuildRunnerFor links a runner importing exactly the given program packages.
func (w *Workspace) BuildRunnerFor(names []string, name string) (string, error) {
	var b strings.Builder
	b.WriteString("package main\n\nimport (\n\t\"vk/probe\"\n")
	for _, n := range names {
		fmt.Fprintf(&b, "\t_ \"vk/progs/%s\"\n", n)
	}
	b.WriteString(")\n\nfunc main() { probe.Main() }\n")
	dir := filepath.Join(w.Root, "cmd", name)
	base.WriteFile(filepath.Join(dir, "main.go"), b.String())
	bin := filepath.Join(w.Root, "bin", name)
	os.MkdirAll(filepath.Dir(bin), 0o755)
	r := base.Cmd{Dir: w.Root, Name: "go", Args: []string{"build", "-race", "-o", bin, "./cmd/" + name}, Timeout: 30 * time.Minute}.Run()
	if r.Exit != 0 {
		return "", fmt.Errorf("runner build failed: %s", r.Stderr)
	}
	return bin, nil
}

// BuildNames compiles the named program packages; returns name -> errors.
func (w *Workspace) BuildNames(names []string) map[string]string {
	var ps []*Prog
	for _, n := range names {
		ps = append(ps, &Prog{Spec: &spec.Spec{Name: n}})
	}
	return w.buildPkgs(ps, false)
}

// SortedBandNames lists generated file names of a program.
func (p *Prog) SortedBandNames() []string {
	var n []string
	for k := range p.Band {
		n = append(n, k)
	}
	sort.Strings(n)
	return n
}

// ReplayFiles collects the material that reproduces a program.
func (p *Prog) ReplayFiles() map[string]string {
	out := map[string]string{}
	filepath.Walk(p.Dir, func(path string, info os.FileInfo, err error) error {
		if err != nil || info.IsDir() {
			return nil
		}
		rel, _ := filepath.Rel(p.Dir, path)
		b, _ := os.ReadFile(path)
		out["prog/"+rel] = string(b)
		return nil
	})
	var g strings.Builder
	for _, r := range p.Gen {
		fmt.Fprintf(&g, "kessoku %v -> exit %d\n%s\n", r.Files, r.Exit, r.Stderr)
	}
	out["generator.log"] = g.String()
	if p.BuildErr != "" {
		out["build-errors.txt"] = p.BuildErr
	}
	return out
}
