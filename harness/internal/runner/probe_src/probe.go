// Package probe is linked into every scratch program: providers call
// Enter/Exit, which record events, realise the scenario's delays / faults /
// cancellations / barriers, and compute identity-carrying results. It also
// contains the scenario executor used by the runner binary.
//
// Two recording modes:
//   - neutral (fault-free scenarios): no locks, no atomics, no shared PRNG -
//     the race detector sees no synchronisation inside the probe, so a
//     missing happens-before edge in the generated injector is not masked.
//   - atomic (error / cancel / barrier scenarios): events are ordered with a
//     global atomic sequence and slots are published atomically, so the
//     executor may read them while stragglers are still running.
package probe

import (
	"bufio"
	"context"
	"encoding/json"
	"errors"
	"fmt"
	"hash/fnv"
	"os"
	"reflect"
	"regexp"
	"runtime"
	"sort"
	"strconv"
	"strings"
	"sync/atomic"
	"time"
)

type V struct{ H uint64 }

func Mix(xs ...uint64) uint64 {
	h := uint64(0x9E3779B97F4A7C15)
	for _, x := range xs {
		h ^= x + 0x9E3779B97F4A7C15 + (h << 6) + (h >> 2)
		h *= 0xBF58476D1CE4E5B9
		h ^= h >> 29
	}
	if h == 0 {
		h = 1
	}
	return h
}

func HexOf(h uint64) string { return fmt.Sprintf("%016x", h) }

func StrH(s string) uint64 {
	if len(s) == 16 {
		if v, err := strconv.ParseUint(s, 16, 64); err == nil {
			return v
		}
	}
	if s == "" {
		return 0
	}
	f := fnv.New64a()
	f.Write([]byte(s))
	v := f.Sum64()
	if v == 0 {
		v = 1
	}
	return v
}

type ctxKey struct{}

func CtxH(c context.Context) uint64 {
	if c == nil {
		return 0
	}
	if v, ok := c.Value(ctxKey{}).(uint64); ok {
		return v
	}
	return 0
}

// InjErr is the error injected into provider Pid.
type InjErr struct{ Pid int }

func (e *InjErr) Error() string { return fmt.Sprintf("injected failure of provider %d", e.Pid) }

// ---------------------------------------------------------------- scenario

type Action struct {
	DelayKind     int  `json:"dk,omitempty"` // 0 none, 1 Gosched, 2 spin, 3 sleep
	DelayUs       int  `json:"du,omitempty"`
	Fail          bool `json:"fail,omitempty"`
	CancelAtEnter bool `json:"ce,omitempty"`
	CancelAtExit  bool `json:"cx,omitempty"`
	Barrier       bool `json:"bar,omitempty"`  // counted member of the barrier
	Gate          bool `json:"gate,omitempty"` // waits for the gate, not counted
	CtxErr        bool `json:"ctxerr,omitempty"`
}

type Scenario struct {
	ID            string         `json:"id"`
	Prog          string         `json:"prog"`
	Inj           string         `json:"inj"`
	Nonce         uint64         `json:"nonce"`
	Atomic        bool           `json:"atomic,omitempty"`
	Procs         int            `json:"procs,omitempty"`
	NProv         int            `json:"nprov"`
	Plan          map[int]Action `json:"plan,omitempty"`
	CancelBefore  bool           `json:"cancel_before,omitempty"`
	CancelAfterUs int            `json:"cancel_after_us,omitempty"`
	BarrierN      int            `json:"barrier_n,omitempty"`
	BudgetMs      int            `json:"budget_ms,omitempty"`
	LeakCheck     bool           `json:"leak_check,omitempty"`
	ZeroUnknown   bool           `json:"zero_unknown,omitempty"` // pass zero values for parameter types outside the registry
}

type SlotOut struct {
	Pid      int      `json:"pid"`
	Calls    int      `json:"calls"`
	Args     []uint64 `json:"args,omitempty"`
	Outs     []uint64 `json:"outs,omitempty"`
	Enter    int64    `json:"enter,omitempty"`
	Exit     int64    `json:"exit,omitempty"`
	EnterSeq uint64   `json:"eseq,omitempty"`
	ExitSeq  uint64   `json:"xseq,omitempty"`
	Gid      int64    `json:"gid,omitempty"`
}

type Outcome struct {
	ID            string    `json:"id"`
	Returned      bool      `json:"returned"`
	Deadlock      bool      `json:"deadlock,omitempty"`
	Unsettled     bool      `json:"unsettled,omitempty"` // watchdog fired but goroutines were not quiescent
	HangDump      string    `json:"hang_dump,omitempty"`
	Panic         string    `json:"panic,omitempty"`
	SetupErr      string    `json:"setup_err,omitempty"`
	ResultH       uint64    `json:"result_h"`
	ResultNil     bool      `json:"result_nil,omitempty"`
	HasErrResult  bool      `json:"has_err_result"`
	ErrKind       string    `json:"err_kind,omitempty"` // "", injected, canceled, deadline, other
	ErrPid        int       `json:"err_pid,omitempty"`
	ErrText       string    `json:"err_text,omitempty"`
	Slots         []SlotOut `json:"slots,omitempty"`
	AliveAtReturn int       `json:"alive_at_return"`
	AliveFrames   []string  `json:"alive_frames,omitempty"`
	Leaked        []string  `json:"leaked,omitempty"`
	LeakUnsettled bool      `json:"leak_unsettled,omitempty"`
	ExitedAfter   int       `json:"exited_after_polls,omitempty"`
	BarrierOpened bool      `json:"barrier_opened,omitempty"`
	BarrierSeen   int       `json:"barrier_seen,omitempty"`
	Gids          int       `json:"gids,omitempty"`
	CallGid       int64     `json:"call_gid,omitempty"`
	Dirty         bool      `json:"dirty,omitempty"`
	ParamTypes    []string  `json:"param_types,omitempty"`
	UnknownParams []string  `json:"unknown_params,omitempty"`
	DurUs         int64     `json:"dur_us"`
}

// ---------------------------------------------------------------- run state

const maxArgs = 24
const maxOuts = 4

type nslot struct {
	calls       int
	nargs       int
	args        [maxArgs]uint64
	outs        [maxOuts]uint64
	enter, exit int64
	gid         int64
}

type aslot struct {
	calls       atomic.Int32
	nargs       atomic.Int32
	args        [maxArgs]atomic.Uint64
	outs        [maxOuts]atomic.Uint64
	enter, exit atomic.Int64
	eseq, xseq  atomic.Uint64
	gid         atomic.Int64
}

type Run struct {
	sc      *Scenario
	ns      []nslot
	as      []aslot
	seq     atomic.Uint64
	cancel  context.CancelFunc
	gate    chan struct{}
	barrier atomic.Int32
	opened  atomic.Bool
	t0      time.Time
}

// Cur is the run providers report to; written by the executor before the
// injector is called (happens-before every provider through goroutine
// creation), never while a call is in flight.
var Cur *Run

type Call struct {
	r    *Run
	pid  int
	act  Action
	ctx  context.Context
	outs [maxOuts]uint64
}

var reGid = regexp.MustCompile(`^goroutine (\d+) `)

func curGid() int64 {
	var b [64]byte
	n := runtime.Stack(b[:], false)
	m := reGid.FindSubmatch(b[:n])
	if m == nil {
		return 0
	}
	g, _ := strconv.ParseInt(string(m[1]), 10, 64)
	return g
}

func (r *Run) now() int64 { return int64(time.Since(r.t0)) }

func delay(a Action) {
	switch a.DelayKind {
	case 1:
		for i := 0; i < 1+a.DelayUs; i++ {
			runtime.Gosched()
		}
	case 2:
		t := time.Now()
		for time.Since(t) < time.Duration(a.DelayUs)*time.Microsecond {
		}
	case 3:
		time.Sleep(time.Duration(a.DelayUs) * time.Microsecond)
	}
}

// Enter is called first thing by every provider.
func Enter(pid int, ctx context.Context, args ...uint64) *Call {
	r := Cur
	c := &Call{r: r, pid: pid, ctx: ctx}
	if r == nil || pid >= r.sc.NProv {
		return c
	}
	c.act = r.sc.Plan[pid]
	xs := append([]uint64{uint64(pid), 0, r.sc.Nonce}, args...)
	for i := 0; i < maxOuts; i++ {
		xs[1] = uint64(i)
		c.outs[i] = Mix(xs...)
	}
	if r.sc.Atomic {
		s := &r.as[pid]
		s.calls.Add(1)
		s.nargs.Store(int32(len(args)))
		for i, a := range args {
			if i < maxArgs {
				s.args[i].Store(a)
			}
		}
		for i := 0; i < maxOuts; i++ {
			s.outs[i].Store(c.outs[i])
		}
		s.gid.Store(curGid())
		s.enter.Store(r.now())
		s.eseq.Store(r.seq.Add(1))
		if c.act.CancelAtEnter && r.cancel != nil {
			r.cancel()
		}
		if c.act.Barrier {
			if int(r.barrier.Add(1)) == r.sc.BarrierN {
				r.opened.Store(true)
				close(r.gate)
			}
			<-r.gate
		} else if c.act.Gate {
			<-r.gate
		}
	} else {
		s := &r.ns[pid]
		s.calls++
		s.nargs = len(args)
		copy(s.args[:], args)
		s.outs = c.outs
		s.gid = curGid()
		s.enter = r.now()
	}
	delay(c.act)
	return c
}

func (c *Call) Out(i int) uint64 { return c.outs[i] }

// Exit is called last thing by every provider; its result is the
// provider's error result (if it has one).
func (c *Call) Exit() error {
	r := c.r
	if r == nil || c.pid >= r.sc.NProv {
		return nil
	}
	var err error
	if c.act.Fail {
		err = &InjErr{Pid: c.pid}
	} else if c.act.CtxErr && c.ctx != nil && c.ctx.Err() != nil {
		err = c.ctx.Err()
	}
	if r.sc.Atomic {
		s := &r.as[c.pid]
		if c.act.CancelAtExit && r.cancel != nil {
			r.cancel()
		}
		s.exit.Store(r.now())
		s.xseq.Store(r.seq.Add(1))
	} else {
		r.ns[c.pid].exit = r.now()
	}
	return err
}

// ---------------------------------------------------------------- registry

type typeReg struct {
	id int
	t  reflect.Type
	mk func(uint64) reflect.Value
	h  func(reflect.Value) uint64
}

type Program struct {
	Name  string
	types []typeReg
	injs  map[string]reflect.Value
}

func (p *Program) Type(id int, t reflect.Type, mk func(uint64) reflect.Value, h func(reflect.Value) uint64) {
	p.types = append(p.types, typeReg{id, t, mk, h})
}

func (p *Program) Injector(name string, fn any) {
	if p.injs == nil {
		p.injs = map[string]reflect.Value{}
	}
	p.injs[name] = reflect.ValueOf(fn)
}

var programs = map[string]*Program{}

func Register(p *Program) { programs[p.Name] = p }

func ArgH(t int, nonce uint64) uint64 { return Mix(0xA46, uint64(t), nonce) }

var ctxType = reflect.TypeOf((*context.Context)(nil)).Elem()
var errType = reflect.TypeOf((*error)(nil)).Elem()

// ---------------------------------------------------------------- goroutine dumps

type gor struct {
	id     int64
	state  string
	frames string // the stack text without the header
	mine   bool   // has a frame in the program's generated file
	top    string
}

var reHdr = regexp.MustCompile(`^goroutine (\d+) \[([^\]]*)\]:`)

func dump(prog string) []gor {
	buf := make([]byte, 1<<20)
	for {
		n := runtime.Stack(buf, true)
		if n < len(buf) {
			buf = buf[:n]
			break
		}
		buf = make([]byte, 2*len(buf))
	}
	var out []gor
	needle := "/progs/" + prog + "/"
	for _, blk := range strings.Split(string(buf), "\n\n") {
		m := reHdr.FindStringSubmatch(blk)
		if m == nil {
			continue
		}
		id, _ := strconv.ParseInt(m[1], 10, 64)
		st := m[2]
		if i := strings.Index(st, ","); i >= 0 {
			st = st[:i]
		}
		body := blk[strings.Index(blk, "\n")+1:]
		g := gor{id: id, state: st, frames: stripAddrs(body)}
		g.mine = strings.Contains(body, needle) && strings.Contains(body, "_band.go")
		out = append(out, g)
	}
	return out
}

var reAddr = regexp.MustCompile(`(\+0x[0-9a-f]+|0x[0-9a-f]+|\{[^}]*\})`)

func stripAddrs(s string) string { return reAddr.ReplaceAllString(s, "") }

func parked(state string) bool {
	switch state {
	case "chan receive", "chan send", "select", "semacquire", "sync.WaitGroup.Wait", "sync.Cond.Wait", "sync.Mutex.Lock", "sync.RWMutex.Lock", "sync.RWMutex.RLock", "chan receive (nil chan)", "chan send (nil chan)", "select (no cases)":
		return true
	}
	return false
}

func mine(gs []gor, exclude int64) []gor {
	var out []gor
	for _, g := range gs {
		if g.mine && g.id != exclude {
			out = append(out, g)
		}
	}
	return out
}

func bandFrames(g gor) string {
	var out []string
	ls := strings.Split(g.frames, "\n")
	for i, l := range ls {
		if strings.Contains(l, "_band.go:") && i > 0 {
			out = append(out, strings.TrimSpace(ls[i-1])+" @ "+shortPath(strings.TrimSpace(l)))
		}
	}
	return "[" + g.state + "] " + strings.Join(out, " <- ")
}

func shortPath(l string) string {
	if i := strings.Index(l, "/progs/"); i >= 0 {
		l = l[i+7:]
	}
	return strings.TrimSpace(l)
}

// quiescent: every goroutine of the call is parked, and identically so in
// two dumps taken apart; nothing of the program is runnable.
func sameParked(a, b []gor) bool {
	if len(a) != len(b) || len(a) == 0 {
		return false
	}
	m := map[int64]gor{}
	for _, g := range a {
		m[g.id] = g
	}
	for _, g := range b {
		o, ok := m[g.id]
		if !ok || !parked(g.state) || !parked(o.state) || o.frames != g.frames {
			return false
		}
	}
	return true
}

// ---------------------------------------------------------------- executor

func (r *Run) providersQuiet() bool {
	if !r.sc.Atomic {
		return true
	}
	for i := range r.as {
		if r.as[i].eseq.Load() != 0 && r.as[i].xseq.Load() == 0 {
			return false
		}
	}
	return true
}

func (r *Run) slotsOut() []SlotOut {
	var out []SlotOut
	for pid := 0; pid < r.sc.NProv; pid++ {
		var so SlotOut
		if r.sc.Atomic {
			s := &r.as[pid]
			so = SlotOut{Pid: pid, Calls: int(s.calls.Load()), Enter: s.enter.Load(), Exit: s.exit.Load(), EnterSeq: s.eseq.Load(), ExitSeq: s.xseq.Load(), Gid: s.gid.Load()}
			n := int(s.nargs.Load())
			for i := 0; i < n && i < maxArgs; i++ {
				so.Args = append(so.Args, s.args[i].Load())
			}
			if so.Calls > 0 {
				for i := 0; i < maxOuts; i++ {
					so.Outs = append(so.Outs, s.outs[i].Load())
				}
			}
		} else {
			s := &r.ns[pid]
			so = SlotOut{Pid: pid, Calls: s.calls, Enter: s.enter, Exit: s.exit, Gid: s.gid}
			so.Args = append(so.Args, s.args[:min(s.nargs, maxArgs)]...)
			if s.calls > 0 {
				so.Outs = append(so.Outs, s.outs[:]...)
			}
		}
		if so.Calls > 0 {
			out = append(out, so)
		}
	}
	return out
}

type callResult struct {
	outs  []reflect.Value
	panic string
}

// Execute runs one scenario and returns what was observed.
func Execute(sc *Scenario) *Outcome {
	o := &Outcome{ID: sc.ID}
	p := programs[sc.Prog]
	if p == nil {
		o.SetupErr = "program not linked: " + sc.Prog
		return o
	}
	fn, ok := p.injs[sc.Inj]
	if !ok {
		o.SetupErr = "injector not registered: " + sc.Inj
		return o
	}
	if sc.Procs > 0 {
		runtime.GOMAXPROCS(sc.Procs)
	}
	r := &Run{sc: sc, t0: time.Now(), gate: make(chan struct{})}
	if sc.Atomic {
		r.as = make([]aslot, sc.NProv)
	} else {
		r.ns = make([]nslot, sc.NProv)
	}
	ctxH := Mix(0xC7, sc.Nonce)
	ctx, cancel := context.WithCancel(context.WithValue(context.Background(), ctxKey{}, ctxH))
	defer cancel()
	r.cancel = cancel
	ft := fn.Type()
	var args []reflect.Value
	for i := 0; i < ft.NumIn(); i++ {
		t := ft.In(i)
		o.ParamTypes = append(o.ParamTypes, t.String())
		if t == ctxType {
			args = append(args, reflect.ValueOf(ctx))
			continue
		}
		found := false
		for _, tr := range p.types {
			if tr.t == t {
				v := tr.mk(ArgH(tr.id, sc.Nonce))
				if !v.IsValid() {
					v = reflect.Zero(t)
				}
				args = append(args, v)
				found = true
				break
			}
		}
		if !found {
			if sc.ZeroUnknown {
				args = append(args, reflect.Zero(t))
				o.UnknownParams = append(o.UnknownParams, t.String())
				continue
			}
			o.SetupErr = "parameter type not in the declaration's type universe: " + t.String()
			return o
		}
	}
	if sc.CancelBefore {
		cancel()
	}
	Cur = r
	done := make(chan callResult, 1)
	var callGid atomic.Int64
	t0 := time.Now()
	go func() {
		callGid.Store(curGid())
		var res callResult
		defer func() {
			if x := recover(); x != nil {
				res.panic = fmt.Sprint(x)
			}
			done <- res
		}()
		res.outs = fn.Call(args)
	}()
	if sc.CancelAfterUs > 0 {
		go func() {
			time.Sleep(time.Duration(sc.CancelAfterUs) * time.Microsecond)
			cancel()
		}()
	}
	budget := time.Duration(sc.BudgetMs) * time.Millisecond
	if budget <= 0 {
		budget = 3 * time.Second
	}
	var res callResult
	returned := false
	for round := 0; round < 4 && !returned; round++ {
		select {
		case res = <-done:
			returned = true
		case <-time.After(budget):
			// not judged by the clock: look whether anything can still move
			d1 := dump(sc.Prog)
			time.Sleep(300 * time.Millisecond)
			select {
			case res = <-done:
				returned = true
				continue
			default:
			}
			d2 := dump(sc.Prog)
			m1, m2 := mine(d1, 0), mine(d2, 0)
			if sameParked(m1, m2) && r.providersQuietOrGated() {
				o.Deadlock = true
				var fr []string
				for _, g := range m2 {
					fr = append(fr, fmt.Sprintf("g%d %s", g.id, bandFrames(g)))
				}
				sort.Strings(fr)
				o.HangDump = strings.Join(fr, "\n")
				round = 99
			}
		}
	}
	o.DurUs = time.Since(t0).Microseconds()
	o.CallGid = callGid.Load()
	o.BarrierOpened = r.opened.Load()
	o.BarrierSeen = int(r.barrier.Load())
	if !returned {
		if !o.Deadlock {
			o.Unsettled = true
		}
		// release gated providers so that their goroutines can finish
		if !r.opened.Load() {
			r.opened.Store(true)
			func() {
				defer func() { recover() }()
				close(r.gate)
			}()
		}
		if sc.Atomic {
			o.Slots = r.slotsOut()
		}
		Cur = nil
		return o
	}
	o.Returned = true
	o.Panic = res.panic
	// goroutine monitor: right after return
	d0 := dump(sc.Prog)
	alive := mine(d0, callGid.Load())
	o.AliveAtReturn = len(alive)
	for _, g := range alive {
		o.AliveFrames = append(o.AliveFrames, bandFrames(g))
	}
	if res.panic == "" {
		if ft.NumOut() >= 1 {
			v := res.outs[0]
			rt := ft.Out(0)
			matched := false
			for _, tr := range p.types {
				if tr.t == rt {
					matched = true
					func() {
						defer func() {
							if x := recover(); x != nil {
								o.ResultNil = true
							}
						}()
						if (v.Kind() == reflect.Interface || v.Kind() == reflect.Pointer || v.Kind() == reflect.Map || v.Kind() == reflect.Slice || v.Kind() == reflect.Func) && v.IsNil() {
							o.ResultNil = true
							return
						}
						o.ResultH = tr.h(v)
					}()
				}
			}
			if !matched && rt != errType {
				o.SetupErr = "result type not in the declaration's type universe: " + rt.String()
			}
		}
		if n := ft.NumOut(); n >= 1 && ft.Out(n-1) == errType {
			o.HasErrResult = true
			if e, _ := res.outs[n-1].Interface().(error); e != nil {
				o.ErrText = e.Error()
				var ie *InjErr
				switch {
				case errors.As(e, &ie):
					o.ErrKind, o.ErrPid = "injected", ie.Pid
				case errors.Is(e, context.Canceled):
					o.ErrKind = "canceled"
				case errors.Is(e, context.DeadlineExceeded):
					o.ErrKind = "deadline"
				default:
					o.ErrKind = "other"
				}
			}
		}
	}
	// leak monitor: the caller takes no further action (no cancel)
	if len(alive) > 0 && sc.LeakCheck {
		var prev []gor
		for poll := 1; poll <= 200; poll++ {
			time.Sleep(10 * time.Millisecond)
			cur := mine(dump(sc.Prog), callGid.Load())
			if len(cur) == 0 {
				o.ExitedAfter = poll
				break
			}
			if poll%20 == 0 {
				if prev != nil && sameParked(prev, cur) && r.providersQuiet() {
					for _, g := range cur {
						o.Leaked = append(o.Leaked, bandFrames(g))
					}
					break
				}
				prev = cur
			}
			if poll == 200 {
				o.LeakUnsettled = true
			}
		}
	}
	if !sc.Atomic || r.providersQuiet() {
		o.Slots = r.slotsOut()
	} else {
		// stragglers still inside providers: wait (bounded) for them
		for i := 0; i < 300 && !r.providersQuiet(); i++ {
			time.Sleep(10 * time.Millisecond)
		}
		o.Slots = r.slotsOut()
	}
	gids := map[int64]bool{}
	for _, s := range o.Slots {
		gids[s.Gid] = true
	}
	o.Gids = len(gids)
	cancel()
	// let stragglers that only waited for cancellation finish before the next scenario
	if len(alive) > 0 {
		o.Dirty = true
		for i := 0; i < 100; i++ {
			if len(mine(dump(sc.Prog), callGid.Load())) == 0 {
				o.Dirty = false
				break
			}
			time.Sleep(5 * time.Millisecond)
		}
	}
	Cur = nil
	return o
}

// providersQuietOrGated: every provider that entered has exited, or is
// parked at the barrier gate (which only another provider can open).
func (r *Run) providersQuietOrGated() bool {
	if !r.sc.Atomic {
		return true // parked goroutines are checked by the dump comparison
	}
	for i := range r.as {
		if r.as[i].eseq.Load() != 0 && r.as[i].xseq.Load() == 0 {
			a := r.sc.Plan[i]
			if !(a.Barrier || a.Gate) || r.opened.Load() {
				return false
			}
		}
	}
	return true
}

// Main is the runner's entry point: reads scenarios (JSON lines) from the
// file named by argv[1], writes outcomes (JSON lines) to argv[2]; BEGIN/END
// markers go to stderr so that race reports can be attributed.
func Main() {
	if len(os.Args) < 3 {
		fmt.Fprintln(os.Stderr, "usage: runner scenarios.jsonl outcomes.jsonl")
		os.Exit(2)
	}
	in, err := os.Open(os.Args[1])
	if err != nil {
		fmt.Fprintln(os.Stderr, err)
		os.Exit(2)
	}
	out, err := os.OpenFile(os.Args[2], os.O_CREATE|os.O_WRONLY|os.O_APPEND, 0o644)
	if err != nil {
		fmt.Fprintln(os.Stderr, err)
		os.Exit(2)
	}
	sc := bufio.NewScanner(in)
	sc.Buffer(make([]byte, 1<<20), 1<<24)
	for sc.Scan() {
		var s Scenario
		if err := json.Unmarshal(sc.Bytes(), &s); err != nil {
			continue
		}
		fmt.Fprintf(os.Stderr, "BEGIN %s\n", s.ID)
		o := Execute(&s)
		fmt.Fprintf(os.Stderr, "END %s\n", s.ID)
		b, _ := json.Marshal(o)
		out.Write(append(b, '\n'))
		if o.Deadlock || o.Unsettled || len(o.Leaked) > 0 || o.Dirty {
			// the process now carries goroutines that will never finish;
			// let the parent restart a fresh child for the remaining scenarios
			out.Close()
			os.Exit(3)
		}
	}
	out.Close()
}
