package runner

import (
	"bufio"
	"encoding/json"
	"fmt"
	"os"
	"path/filepath"
	"regexp"
	"strings"
	"sync"
	"time"

	"vharness/internal/base"
	probe "vharness/internal/runner/probe_src"
)

type Scenario = probe.Scenario
type Outcome = probe.Outcome
type Action = probe.Action

type RaceReport struct {
	Scenario  string
	Prog      string
	Text      string
	Key       string
	Band      bool // a frame in a generated file
	ProbeOnly bool
}

type Crash struct {
	Scenario string
	Kind     string
	Text     string
}

type ExecResult struct {
	Outcomes map[string]*Outcome
	Races    []RaceReport
	Crashes  []Crash
	Lost     []string // scenarios that produced no outcome and no crash attribution
	Children int
}

var reBegin = regexp.MustCompile(`^(BEGIN|END) (\S+)$`)
var reFrameLoc = regexp.MustCompile(`\s+(\S+\.go):(\d+)`)
var reProgPath = regexp.MustCompile(`/progs/([^/]+)/`)

// Exec runs the scenarios on `workers` child processes of bin.
func Exec(scratch, bin string, scs []Scenario, workers int) *ExecResult {
	res := &ExecResult{Outcomes: map[string]*Outcome{}}
	if workers < 1 {
		workers = 1
	}
	if workers > len(scs) {
		workers = len(scs)
	}
	if len(scs) == 0 {
		return res
	}
	// interleave scenarios over workers so each child sees a mix
	parts := make([][]Scenario, workers)
	for i, s := range scs {
		parts[i%workers] = append(parts[i%workers], s)
	}
	var mu sync.Mutex
	var wg sync.WaitGroup
	for wi := range parts {
		wg.Add(1)
		go func(wi int) {
			defer wg.Done()
			rem := parts[wi]
			round := 0
			for len(rem) > 0 {
				round++
				dir := filepath.Join(scratch, "exec", fmt.Sprintf("w%d-r%d", wi, round))
				os.MkdirAll(dir, 0o755)
				sf, of, ef := filepath.Join(dir, "sc.jsonl"), filepath.Join(dir, "out.jsonl"), filepath.Join(dir, "stderr.txt")
				var sb strings.Builder
				var budget time.Duration
				for _, s := range rem {
					b, _ := json.Marshal(s)
					sb.Write(b)
					sb.WriteByte('\n')
					budget += 200 * time.Millisecond
				}
				os.WriteFile(sf, []byte(sb.String()), 0o644)
				sh := fmt.Sprintf("exec %q %q %q 2>%q", bin, sf, of, ef)
				r := base.Cmd{Dir: dir, Env: []string{"GORACE=halt_on_error=0 history_size=3", "GOTRACEBACK=all"}, Name: "sh", Args: []string{"-c", sh}, Timeout: 5*time.Minute + budget}.Run()
				outs := readOutcomes(of)
				races, lastOpen, panicTxt := parseStderr(ef)
				mu.Lock()
				res.Children++
				for id, o := range outs {
					res.Outcomes[id] = o
				}
				res.Races = append(res.Races, races...)
				mu.Unlock()
				// what remains?
				var next []Scenario
				skipUntil := ""
				if r.Exit != 0 && r.Exit != 3 || r.TimedOut {
					// crashed or hung: attribute to the scenario that was open
					kind := "crash"
					if r.TimedOut {
						kind = "child-timeout"
					}
					if lastOpen == "" {
						// nothing attributable: find first scenario without outcome
						for _, s := range rem {
							if _, ok := outs[s.ID]; !ok {
								lastOpen = s.ID
								break
							}
						}
					}
					mu.Lock()
					res.Crashes = append(res.Crashes, Crash{Scenario: lastOpen, Kind: kind + ":" + classifyPanic(panicTxt), Text: tail(panicTxt, 6000)})
					mu.Unlock()
					skipUntil = lastOpen
				}
				for _, s := range rem {
					if _, ok := outs[s.ID]; ok {
						continue
					}
					if s.ID == skipUntil {
						continue
					}
					next = append(next, s)
				}
				if len(next) == len(rem) {
					// no progress: give up on these
					mu.Lock()
					for _, s := range next {
						res.Lost = append(res.Lost, s.ID)
					}
					mu.Unlock()
					break
				}
				rem = next
				if os.Getenv("VERIF_KEEP") == "" {
					os.RemoveAll(dir)
				}
			}
		}(wi)
	}
	wg.Wait()
	return res
}

func readOutcomes(path string) map[string]*Outcome {
	out := map[string]*Outcome{}
	f, err := os.Open(path)
	if err != nil {
		return out
	}
	defer f.Close()
	sc := bufio.NewScanner(f)
	sc.Buffer(make([]byte, 1<<20), 1<<26)
	for sc.Scan() {
		var o Outcome
		if json.Unmarshal(sc.Bytes(), &o) == nil && o.ID != "" {
			oo := o
			out[o.ID] = &oo
		}
	}
	return out
}

func tail(s string, n int) string {
	if len(s) > n {
		return s[len(s)-n:]
	}
	return s
}

func classifyPanic(t string) string {
	for _, k := range []string{"close of closed channel", "close of nil channel", "nil pointer dereference", "all goroutines are asleep", "checkptr", "index out of range", "send on closed channel", "concurrent map"} {
		if strings.Contains(t, k) {
			return strings.ReplaceAll(k, " ", "-")
		}
	}
	if strings.Contains(t, "panic:") {
		return "panic"
	}
	if strings.Contains(t, "fatal error:") {
		return "fatal"
	}
	return "exit"
}

// parseStderr extracts race reports (attributed to the scenario open at
// that point, or the last one begun), the scenario left open at the end,
// and the trailing panic/fatal text.
func parseStderr(path string) ([]RaceReport, string, string) {
	b, err := os.ReadFile(path)
	if err != nil {
		return nil, "", ""
	}
	lines := strings.Split(string(b), "\n")
	var races []RaceReport
	open, last := "", ""
	var cur []string
	inRace := false
	panicAt := -1
	for i, l := range lines {
		if m := reBegin.FindStringSubmatch(strings.TrimSpace(l)); m != nil && !inRace {
			if m[1] == "BEGIN" {
				open, last = m[2], m[2]
			} else {
				open = ""
			}
			continue
		}
		if strings.HasPrefix(l, "WARNING: DATA RACE") {
			inRace = true
			cur = []string{l}
			continue
		}
		if inRace {
			if strings.HasPrefix(l, "==================") {
				inRace = false
				txt := strings.Join(cur, "\n")
				rr := RaceReport{Scenario: last, Text: txt}
				var locs []string
				onlyProbe := true
				for _, fl := range cur {
					if m := reFrameLoc.FindStringSubmatch(fl); m != nil {
						f := m[1]
						if strings.Contains(f, "/progs/") {
							if pm := reProgPath.FindStringSubmatch(f); pm != nil {
								rr.Prog = pm[1]
							}
						}
						if strings.Contains(f, "_band.go") {
							rr.Band = true
						}
						if strings.Contains(f, "/progs/") || strings.Contains(f, "kessoku") {
							onlyProbe = false
						}
						sp := f
						if k := strings.Index(sp, "/progs/"); k >= 0 {
							sp = sp[k:]
						}
						locs = append(locs, filepath.Base(filepath.Dir(sp))+"/"+filepath.Base(sp)+":"+m[2])
					}
				}
				rr.ProbeOnly = onlyProbe
				rr.Key = strings.Join(locs, "|")
				races = append(races, rr)
				continue
			}
			if m := reBegin.FindStringSubmatch(strings.TrimSpace(l)); m != nil {
				// markers interleaved inside a report
				if m[1] == "BEGIN" {
					open, last = m[2], m[2]
				} else {
					open = ""
				}
				continue
			}
			cur = append(cur, l)
			continue
		}
		if panicAt < 0 && (strings.HasPrefix(l, "panic:") || strings.HasPrefix(l, "fatal error:") || strings.HasPrefix(l, "SIGQUIT") || strings.HasPrefix(l, "unexpected fault")) {
			panicAt = i
		}
	}
	ptxt := ""
	if panicAt >= 0 {
		end := panicAt + 120
		if end > len(lines) {
			end = len(lines)
		}
		ptxt = strings.Join(lines[panicAt:end], "\n")
	}
	if open == "" && panicAt >= 0 {
		open = last // a straggler goroutine of the last scenario crashed the process
	}
	return races, open, ptxt
}
