// Package spec: abstract description of one user package with kessoku.Inject
// declarations (the replayable input), and a reference interpreter that
// evaluates a declaration sequentially from the *documented* semantics.
package spec

import (
	"fmt"
	"sort"
	"strings"
)

type Kind string

const (
	KStruct   Kind = "struct"     // named struct (value); carries H in unexported field v
	KPtr      Kind = "ptr"        // *Base
	KIface    Kind = "iface"      // named interface with method H<Name>() uint64
	KNamedStr Kind = "namedstr"   // type X string (H hex-encoded)
	KNamedInt Kind = "namedint"   // type X int64
	KSlice    Kind = "slice"      // []Base
	KMap      Kind = "map"        // map[string]Base
	KFunc     Kind = "func"       // func() Base
	KArray    Kind = "array"      // [2]Base
	KAnon     Kind = "anonstruct" // struct{ <Name> uint64 }
	KBasic    Kind = "basic"      // string, int, int64, uint64
	KCtx      Kind = "ctx"        // context.Context
	KRaw      Kind = "raw"        // static only: arbitrary expression, no identity
)

// Type is one Go type usable as provider input/output.
type Type struct {
	ID       int
	Kind     Kind
	Name     string   // named kinds: type name; KAnon: field name; KBasic: builtin name
	Pkg      string   // "" = main package of the program; otherwise the sibling package's directory (ExtPkg.Dir)
	Base     int      // KPtr/KSlice/KMap/KFunc/KArray: element type id
	Fields   []Field  // KStruct: exported fields (expansion candidates)
	Impl     []int    // KStruct: interface ids implemented
	PtrRecv  bool     // KStruct: methods have pointer receivers (only *S implements)
	Pure     bool     // KStruct: no identity field; identity always derives from the fields (wire.Struct targets)
	Raw      string   // KRaw: the Go expression (main-package view)
	RawDecl  string   // KRaw: declarations to add to types.go (may be empty)
	BaseVar  string   // KRaw: expected variable base name (informational)
	RawNames []string // KRaw: distinctive identifiers occurring in the expression
}

type Field struct {
	Name     string
	T        int
	Embedded bool
	Tag      string // raw struct tag, e.g. `wire:"-"`
	Alias    string // the field is declared with this alias of its type (type Alias = T; same type, other spelling)
}

type ProvKind string

const (
	PFunc   ProvKind = "func"
	PValue  ProvKind = "value"
	PStruct ProvKind = "struct"
	// PAssemble (wire only): wire.Struct(new(S), fields...) builds S (or *S)
	// from its fields; Params are the listed fields' types, AsmFields their names.
	PAssemble ProvKind = "assemble"
)

type Prov struct {
	ID          int
	Kind        ProvKind
	Fn          string // function name (PFunc)
	Pkg         string // "" or sibling package of the function
	Params      []int
	Results     []int // non-error results
	Err         bool
	Async       bool
	Binds       []int    // interface type ids (Bind wrappers)
	BindOut     bool     // true: Bind(Async(Provide)), false: Async(Bind(Provide))
	Lit         bool     // expression is a function literal forwarding to Fn
	ValExpr     string   // PValue: Go expression
	ValH        uint64   // PValue: H of the expression's value
	Variadic    bool     // last parameter (a slice type) is declared variadic
	ParamSpell  []string // optional per-parameter spelling of the SAME type (through an alias, with alias type arguments); "" = default
	ResultSpell []string // likewise for results
	TypeAlias   string   // PStruct: Struct[<alias>]() where `type <alias> = T` (declared in ExtraDecl); same type, other spelling
	AsmFields   []string // PAssemble: listed field names ("*" = all)
	IfaceVal    bool     // PValue (wire only): wire.InterfaceValue(new(Binds[0]), expr)
	Decoy       bool     // emitted as a function but part of no declaration (must never run)
}

// Item is either a provider reference or a set reference.
type Item struct {
	Prov   int    // provider id, or -1
	Set    string // set variable name, or ""
	Inline []Item // inline kessoku.Set(...), if non-nil
	Raw    string // verbatim expression the model does not interpret (e.g. a Set variable of a sibling package), or ""
}

type SetDef struct {
	Name  string
	Items []Item
	File  int
}

type Injector struct {
	Name  string
	Ret   int
	Items []Item
	File  int // index of the source file holding the declaration
}

type Spec struct {
	Name            string // package directory / program name
	PkgName         string // Go package name
	Types           []*Type
	Provs           []*Prov
	Sets            []*SetDef
	Injectors       []*Injector
	Files           []string // names of the declaration files (kessoku.go, ...)
	Features        []string
	ExtPkgs         []ExtPkg
	ExtraDecl       string            // extra package-level declarations (hostile identifiers)
	GeneratedDecl   string            // package-level declarations kept in names_string.go, a file carrying the "Code generated ... DO NOT EDIT." header of another tool
	ExtDecl         map[string]string // extra declarations per sibling package directory
	Dynamic         bool              // all needed types carry identity; runnable
	InvMode         string            // how the static checks invoke the generator: "" (by position), "one" (all files in one run), "per" (one run per file), "pair" (one run over PairWith's files, then this package's), "first" (generated by its partner's run)
	PairWith        string
	ExtraWireFiles  map[string]string // wire family: further wire files written verbatim ({{PKG}} = import path of the program); set aside with the others
	WireLocalHelper bool              // wire family: one provider is wrapped by a function declared in wire.go itself
	WireNoSets      bool              // wire family: every element stays at the top level of wire.Build (one wire file)
	DotImport       string            // Dir of a sibling package the declaration files import with a dot
	SetDeclForm     int               // 0: by seed and name; 1..3: one var per set / var block / multi-name specifications
	Parens          bool              // set references and provider expressions are written in parentheses
	NoForward       bool              // main package gets no helpers for sibling-package types (so it need not import those packages)
	WireAltAliases  bool              // wire_sets.go imports every sibling package under another alias than wire.go
	WireBindsStay   bool              // a wire.Bind never leaves the set that lists its provider
	WireAllInSets   bool              // every wire element goes into a named set (wire_sets.go)
	KessokuAlias    string            // declaration files import kessoku under this alias (and the package declares an identifier "kessoku")
	Seed            int64
}

type ExtPkg struct {
	Dir   string // directory under the program dir
	Name  string // package name
	Alias string // import alias used in the main package ("" = none)
}

func (s *Spec) T(id int) *Type { return s.Types[id] }

// Expr renders the type as seen from package `from` ("" = main package).
func (s *Spec) Expr(id int, from string) string {
	t := s.Types[id]
	q := func(name, pkg string) string {
		if pkg == from {
			return name
		}
		if pkg == "" {
			return "MAINPKG." + name // never needed: ext packages do not refer to main
		}
		return s.importName(pkg) + "." + name
	}
	switch t.Kind {
	case KStruct, KIface, KNamedStr, KNamedInt:
		return q(t.Name, t.Pkg)
	case KPtr:
		return "*" + s.Expr(t.Base, from)
	case KSlice:
		return "[]" + s.Expr(t.Base, from)
	case KMap:
		return "map[string]" + s.Expr(t.Base, from)
	case KFunc:
		return "func() " + s.Expr(t.Base, from)
	case KArray:
		return "[2]" + s.Expr(t.Base, from)
	case KAnon:
		return "struct{ " + t.Name + " uint64 }"
	case KBasic:
		return t.Name
	case KCtx:
		return "context.Context"
	case KRaw:
		return t.Raw
	}
	return "?"
}

func (s *Spec) importName(pkg string) string {
	for _, e := range s.ExtPkgs {
		if e.Dir == pkg {
			if e.Alias != "" {
				return e.Alias
			}
			return e.Name
		}
	}
	return pkg
}

// Key is the identity key of a type (distinct ids are distinct Go types by
// construction, so the id is the key).
func (s *Spec) Key(id int) int { return id }

// ---------------------------------------------------------------- flatten

// Flatten expands an injector's items (sets, nested sets) into the ordered
// provider list.
func (s *Spec) Flatten(items []Item) []int {
	var out []int
	var rec func(it []Item, depth int)
	rec = func(it []Item, depth int) {
		if depth > 20 {
			return
		}
		for _, x := range it {
			switch {
			case x.Inline != nil:
				rec(x.Inline, depth+1)
			case x.Set != "":
				for _, sd := range s.Sets {
					if sd.Name == x.Set {
						rec(sd.Items, depth+1)
					}
				}
			case x.Raw != "":
			default:
				out = append(out, x.Prov)
			}
		}
	}
	rec(items, 0)
	return out
}

// ---------------------------------------------------------------- reference interpreter

// Supplier says where a type comes from.
type Supplier struct {
	Prov   int // provider id
	Result int // result index (PFunc), 0 otherwise
	Field  int // PStruct: index into the struct type's Fields; -1 otherwise
	Via    int // PStruct: the struct type id the field is read from
}

// Ref is the reference interpretation of one injector.
type Ref struct {
	Inj        *Injector
	Suppliers  map[int]Supplier // type id -> supplier
	Needed     []int            // needed function/value providers in dependency order
	NeededSet  map[int]bool
	FieldReads []Supplier // needed field reads
	Args       []int      // unsupplied needed types (sorted by id), each once
	HasErr     bool
	HasAsync   bool
	Problems   []string      // ambiguity / cycle / orphan found while interpreting
	Deps       map[int][]int // provider id -> provider ids it depends on (direct, through field reads too)
}

// structBase returns the struct type id behind t (t itself if KStruct, base if KPtr) or -1.
func (s *Spec) structBase(t int) int {
	switch s.Types[t].Kind {
	case KStruct:
		return t
	case KPtr:
		if s.Types[s.Types[t].Base].Kind == KStruct {
			return s.Types[t].Base
		}
	}
	return -1
}

// Implements: does type t (struct value or pointer) implement interface i?
func (s *Spec) Implements(t, i int) bool {
	sb := s.structBase(t)
	if sb < 0 {
		return false
	}
	st := s.Types[sb]
	has := false
	for _, x := range st.Impl {
		if x == i {
			has = true
		}
	}
	if !has {
		return false
	}
	if st.PtrRecv && s.Types[t].Kind != KPtr {
		return false
	}
	return true
}

// Interpret builds the reference view of an injector from the documented
// semantics: provider results supply their types; Bind adds the interface to
// the implementing result; Struct adds one supplier per exported field;
// Value supplies its static type; unsupplied needed types are parameters.
func (s *Spec) Interpret(inj *Injector) *Ref {
	r := &Ref{Inj: inj, Suppliers: map[int]Supplier{}, NeededSet: map[int]bool{}, Deps: map[int][]int{}}
	provs := s.Flatten(inj.Items)
	add := func(t int, sp Supplier) {
		if old, ok := r.Suppliers[t]; ok {
			if old.Prov == sp.Prov && old.Field < 0 && sp.Field < 0 {
				return // same provider supplying the type twice (first wins)
			}
			r.Problems = append(r.Problems, fmt.Sprintf("duplicate:%d", t))
			return
		}
		r.Suppliers[t] = sp
	}
	// a provider reached twice (listed twice, or through two sets) supplies
	// its types twice: the generator refuses that like any other duplicate
	seenProv := map[int]bool{}
	for _, pid := range provs {
		if seenProv[pid] {
			r.Problems = append(r.Problems, fmt.Sprintf("listed-twice:%d", pid))
		}
		seenProv[pid] = true
	}
	var structs []*Prov
	for _, pid := range provs {
		p := s.Provs[pid]
		switch p.Kind {
		case PStruct:
			structs = append(structs, p)
		case PValue:
			add(p.Results[0], Supplier{Prov: pid, Field: -1})
			for _, b := range p.Binds {
				add(b, Supplier{Prov: pid, Field: -1})
			}
		case PFunc, PAssemble:
			for i, t := range p.Results {
				add(t, Supplier{Prov: pid, Result: i, Field: -1})
			}
			for _, b := range p.Binds {
				for i, t := range p.Results {
					if s.Implements(t, b) {
						add(b, Supplier{Prov: pid, Result: i, Field: -1})
						break
					}
				}
			}
		}
	}
	for _, p := range structs {
		st := p.Results[0]
		if _, ok := r.Suppliers[st]; !ok {
			r.Problems = append(r.Problems, fmt.Sprintf("orphan:%d", st))
			continue
		}
		sb := s.structBase(st)
		for fi, f := range s.Types[sb].Fields {
			add(f.T, Supplier{Prov: p.ID, Field: fi, Via: st})
		}
	}
	// need set: DFS with cycle detection, post-order gives dependency order
	state := map[int]int{} // provider id -> 0 unseen,1 visiting,2 done
	argSet := map[int]bool{}
	fieldSeen := map[string]bool{}
	var needType func(t int) []int
	var needProv func(pid int)
	needType = func(t int) []int {
		sp, ok := r.Suppliers[t]
		if !ok {
			argSet[t] = true
			return nil
		}
		if sp.Field >= 0 {
			k := fmt.Sprintf("%d/%d", sp.Via, sp.Field)
			if !fieldSeen[k] {
				fieldSeen[k] = true
				r.FieldReads = append(r.FieldReads, sp)
			}
			return needType(sp.Via) // the struct's supplier
		}
		needProv(sp.Prov)
		return []int{sp.Prov}
	}
	needProv = func(pid int) {
		switch state[pid] {
		case 2:
			return
		case 1:
			r.Problems = append(r.Problems, fmt.Sprintf("cycle:%d", pid))
			return
		}
		state[pid] = 1
		p := s.Provs[pid]
		for _, t := range p.Params {
			for _, d := range needType(t) {
				r.Deps[pid] = append(r.Deps[pid], d)
			}
		}
		state[pid] = 2
		r.Needed = append(r.Needed, pid)
		r.NeededSet[pid] = true
		if p.Err {
			r.HasErr = true
		}
		if p.Async {
			r.HasAsync = true
		}
	}
	needType(inj.Ret)
	for t := range argSet {
		r.Args = append(r.Args, t)
	}
	sort.Ints(r.Args)
	return r
}

// Valid reports whether the declaration is unambiguous, acyclic and without orphans.
func (r *Ref) Valid() bool { return len(r.Problems) == 0 }

// TransDeps returns the transitive provider dependencies of pid.
func (r *Ref) TransDeps(pid int) map[int]bool {
	out := map[int]bool{}
	var rec func(p int)
	rec = func(p int) {
		for _, d := range r.Deps[p] {
			if !out[d] {
				out[d] = true
				rec(d)
			}
		}
	}
	rec(pid)
	return out
}

// ---------------------------------------------------------------- value semantics (H)

// Mix is the identity hash used by providers (must match probe.Mix).
func Mix(xs ...uint64) uint64 {
	h := uint64(0x9E3779B97F4A7C15)
	for _, x := range xs {
		h ^= x + 0x9E3779B97F4A7C15 + (h << 6) + (h >> 2)
		h *= 0xBF58476D1CE4E5B9
		h ^= h >> 29
	}
	if h == 0 {
		h = 1
	}
	return h
}

// Some kinds cannot hold all 64 bits; Norm reduces h to what survives a
// round trip through mk/h of the type.
func (s *Spec) Norm(t int, h uint64) uint64 {
	switch s.Types[t].Kind {
	case KBasic:
		if s.Types[t].Name == "int" || s.Types[t].Name == "int64" {
			return h
		}
	}
	return h
}

// ArgH is the identity given to an injector argument of type t in a run.
func ArgH(t int, nonce uint64) uint64 { return Mix(0xA46, uint64(t), nonce) }

// FieldH is the identity of field fi of a struct value with identity h.
func FieldH(h uint64, fi int) uint64 { return Mix(h, 1000+uint64(fi)) }

// OutH is the identity of result i of provider pid.
func OutH(pid, i int, nonce uint64, args []uint64) uint64 {
	xs := append([]uint64{uint64(pid), uint64(i), nonce}, args...)
	return Mix(xs...)
}

// Eval computes, for a run with the given nonce, the expected argument
// identities of every needed provider, its outputs and the result identity.
type Expect struct {
	Args    map[int][]uint64 // provider id -> expected argument identities
	Outs    map[int][]uint64
	Result  uint64
	ArgVals map[int]uint64 // injector argument type id -> identity passed
}

func (s *Spec) Eval(r *Ref, nonce uint64, ctxH uint64) *Expect {
	e := &Expect{Args: map[int][]uint64{}, Outs: map[int][]uint64{}, ArgVals: map[int]uint64{}}
	for _, t := range r.Args {
		if s.Types[t].Kind == KCtx {
			e.ArgVals[t] = ctxH
		} else {
			e.ArgVals[t] = ArgH(t, nonce)
		}
	}
	var typeH func(t int) uint64
	typeH = func(t int) uint64 {
		sp, ok := r.Suppliers[t]
		if !ok {
			return e.ArgVals[t]
		}
		if sp.Field >= 0 {
			return FieldH(typeH(sp.Via), sp.Field)
		}
		p := s.Provs[sp.Prov]
		if p.Kind == PValue {
			return p.ValH
		}
		return e.Outs[sp.Prov][sp.Result]
	}
	for _, pid := range r.Needed {
		p := s.Provs[pid]
		if p.Kind == PAssemble {
			// identity of an assembled struct derives from all its fields (unlisted / excluded = 0)
			sb := s.structBase(p.Results[0])
			hs := []uint64{0x57}
			star := len(p.AsmFields) == 1 && p.AsmFields[0] == "*"
			k := 0
			for _, f := range s.Types[sb].Fields {
				h := uint64(0)
				if star {
					if f.Tag == "" && k < len(p.Params) {
						h = typeH(p.Params[k])
						k++
					}
				} else {
					for i, n := range p.AsmFields {
						if n == f.Name {
							h = typeH(p.Params[i])
						}
					}
				}
				hs = append(hs, h)
			}
			e.Outs[pid] = []uint64{Mix(hs...)}
			continue
		}
		if p.Kind != PFunc {
			continue
		}
		var args []uint64
		for _, t := range p.Params {
			args = append(args, typeH(t))
		}
		e.Args[pid] = args
		outs := make([]uint64, len(p.Results))
		for i := range p.Results {
			outs[i] = OutH(pid, i, nonce, args)
		}
		e.Outs[pid] = outs
	}
	e.Result = typeH(r.Inj.Ret)
	return e
}

// Describe gives a compact one-line description of an injector for evidence.
func (s *Spec) Describe(inj *Injector) string {
	var b strings.Builder
	fmt.Fprintf(&b, "%s.%s -> %s :", s.Name, inj.Name, s.Expr(inj.Ret, ""))
	for _, pid := range s.Flatten(inj.Items) {
		p := s.Provs[pid]
		b.WriteString(" ")
		if p.Async {
			b.WriteString("~")
		}
		switch p.Kind {
		case PFunc:
			var ps, rs []string
			for _, t := range p.Params {
				ps = append(ps, s.Expr(t, ""))
			}
			for _, t := range p.Results {
				rs = append(rs, s.Expr(t, ""))
			}
			if p.Err {
				rs = append(rs, "error")
			}
			fmt.Fprintf(&b, "%s(%s)(%s)", p.Fn, strings.Join(ps, ","), strings.Join(rs, ","))
			for _, bi := range p.Binds {
				fmt.Fprintf(&b, "=>%s", s.Expr(bi, ""))
			}
		case PValue:
			fmt.Fprintf(&b, "Value(%s)", p.ValExpr)
		case PStruct:
			fmt.Fprintf(&b, "Struct[%s]", s.Expr(p.Results[0], ""))
		}
	}
	return b.String()
}
