package spec

import (
	"fmt"
	"math/rand"
	"regexp"
)

// Planted defects for C09: each function takes a valid spec and returns a
// clone with exactly one defect in injector 0, plus the names of the types
// the diagnostic has to mention.

type Planted struct {
	Spec  *Spec
	Kind  string     // cycle-direct, cycle-self, cycle-bind, cycle-field, cycle-second-result, dup-providers, dup-bind, dup-field, dup-two-structs, dup-same-struct, orphan
	Names [][]string // for each group: at least one of these names must appear in the diagnostic
	Note  string
}

func (s *Spec) nextTypeName(prefix string) string {
	used := map[string]bool{}
	for _, t := range s.Types {
		used[t.Name] = true
	}
	for i := 0; ; i++ {
		n := fmt.Sprintf("%s%d", prefix, i)
		if !used[n] {
			return n
		}
	}
}

func (s *Spec) addT(t *Type) int {
	t.ID = len(s.Types)
	s.Types = append(s.Types, t)
	return t.ID
}

func (s *Spec) addP(p *Prov) int {
	p.ID = len(s.Provs)
	s.Provs = append(s.Provs, p)
	return p.ID
}

// TypeNames returns the distinctive names by which a diagnostic can refer
// to type t (nil = cannot be checked).
func (s *Spec) TypeNames(t int) []string {
	tt := s.Types[t]
	switch tt.Kind {
	case KStruct, KIface, KNamedStr, KNamedInt:
		return []string{tt.Name}
	case KPtr, KSlice, KMap, KFunc, KArray:
		return s.TypeNames(tt.Base)
	case KAnon:
		return []string{tt.Name}
	case KBasic:
		return []string{tt.Name}
	case KCtx:
		return []string{"context.Context"}
	case KRaw:
		// the recorded names plus every exported identifier the expression
		// mentions (GBox[GBox[int]] -> GBox): a diagnostic may name any of them
		ns := append([]string{}, tt.RawNames...)
		for _, id := range regexp.MustCompile(`\b[A-Z][A-Za-z0-9_]*`).FindAllString(tt.Raw, -1) {
			dup := false
			for _, n := range ns {
				if n == id {
					dup = true
				}
			}
			if !dup {
				ns = append(ns, id)
			}
		}
		return ns
	}
	return nil
}

// suppliedBy lists types that provider pid makes available (results, bound
// interfaces, fields of expanded structs it produces).
func (s *Spec) suppliedBy(ref *Ref, pid int) (direct, viaBind, viaField []int) {
	p := s.Provs[pid]
	direct = append(direct, p.Results...)
	for t, sp := range ref.Suppliers {
		if sp.Field < 0 && sp.Prov == pid {
			isRes := false
			for _, r := range p.Results {
				if r == t {
					isRes = true
				}
			}
			if !isRes {
				viaBind = append(viaBind, t)
			}
		}
		if sp.Field >= 0 {
			if vs, ok := ref.Suppliers[sp.Via]; ok && vs.Field < 0 && vs.Prov == pid {
				viaField = append(viaField, t)
			}
		}
	}
	sortInts(viaBind)
	sortInts(viaField)
	return
}

// WithUnreachableCycles returns a copy of a valid spec whose first injector
// additionally lists providers that nothing reachable from the requested type
// needs and that depend on themselves: a middleware-shaped provider
// func(T) T and a pair func(U) V, func(V) U over fresh types. The documented
// rules speak about the providers reachable from the requested type only, so
// the declaration stays valid and means the same.
func (s *Spec) WithUnreachableCycles(name string, r *rand.Rand) *Spec {
	c := s.Clone()
	c.Name, c.PkgName = name, name
	t := c.addT(&Type{Kind: KStruct, Name: c.nextTypeName("LoopSelf"), Base: -1})
	u := c.addT(&Type{Kind: KStruct, Name: c.nextTypeName("LoopLeft"), Base: -1})
	v := c.addT(&Type{Kind: KStruct, Name: c.nextTypeName("LoopRight"), Base: -1})
	ps := []int{
		c.addP(&Prov{Kind: PFunc, Fn: fmt.Sprintf("WrapSelfP%d", len(c.Provs)), Params: []int{t}, Results: []int{t}}),
		c.addP(&Prov{Kind: PFunc, Fn: fmt.Sprintf("LeftFromRightP%d", len(c.Provs)), Params: []int{v}, Results: []int{u}, Async: r.Intn(2) == 0}),
		c.addP(&Prov{Kind: PFunc, Fn: fmt.Sprintf("RightFromLeftP%d", len(c.Provs)), Params: []int{u}, Results: []int{v}}),
	}
	in := c.Injectors[0]
	for _, pid := range ps {
		pos := r.Intn(len(in.Items) + 1)
		in.Items = append(in.Items[:pos], append([]Item{{Prov: pid}}, in.Items[pos:]...)...)
	}
	c.Features = append(c.Features, "unreachable-cycles-listed")
	return c
}

// PlantAll returns every applicable planted variant of s (injector 0).
func (s *Spec) PlantAll(r *rand.Rand) []Planted {
	var out []Planted
	base := s.Interpret(s.Injectors[0])
	if !base.Valid() {
		return nil
	}
	fn := []int{}
	for _, pid := range base.Needed {
		if s.Provs[pid].Kind == PFunc {
			fn = append(fn, pid)
		}
	}
	addItem := func(c *Spec, pid int) {
		in := c.Injectors[0]
		pos := r.Intn(len(in.Items) + 1)
		in.Items = append(in.Items[:pos], append([]Item{{Prov: pid}}, in.Items[pos:]...)...)
	}
	provNames := func(c *Spec, pid int) []string {
		var ns []string
		for _, t := range c.Provs[pid].Results {
			ns = append(ns, c.TypeNames(t)...)
		}
		for _, b := range c.Provs[pid].Binds {
			ns = append(ns, c.TypeNames(b)...)
		}
		// fields of an expanded struct it produces count as "what it supplies"
		for _, t := range c.Provs[pid].Results {
			sb := c.structBase(t)
			if sb >= 0 {
				for _, f := range c.Types[sb].Fields {
					ns = append(ns, c.TypeNames(f.T)...)
				}
			}
		}
		return ns
	}
	// ---- cycles: A (a transitive dependency of B, or B itself) takes a type supplied by B
	if len(fn) > 0 {
		type cand struct {
			a, b, t int
			kind    string
		}
		var cands []cand
		for _, b := range fn {
			direct, viaBind, viaField := s.suppliedBy(base, b)
			as := []int{b}
			for a := range base.TransDeps(b) {
				if s.Provs[a].Kind == PFunc {
					as = append(as, a)
				}
			}
			sortInts(as)
			for _, a := range as {
				for i, t := range direct {
					k := "cycle-direct"
					if a == b {
						k = "cycle-self"
					} else if i > 0 {
						k = "cycle-second-result"
					}
					cands = append(cands, cand{a, b, t, k})
				}
				for _, t := range viaBind {
					cands = append(cands, cand{a, b, t, "cycle-bind"})
				}
				for _, t := range viaField {
					cands = append(cands, cand{a, b, t, "cycle-field"})
				}
			}
		}
		seenKind := map[string]int{}
		r.Shuffle(len(cands), func(i, j int) { cands[i], cands[j] = cands[j], cands[i] })
		for _, c := range cands {
			if seenKind[c.kind] >= 1 {
				continue
			}
			if s.Provs[c.a].Pkg != "" && s.typePkg(c.t) != s.Provs[c.a].Pkg {
				continue // a sibling-package provider cannot take a type of another package
			}
			cl := s.Clone()
			pa := cl.Provs[c.a]
			pos := r.Intn(len(pa.Params) + 1)
			if pa.Variadic && pos == len(pa.Params) {
				pos = 0 // the last parameter of a variadic provider stays last
			}
			pa.Params = append(pa.Params[:pos], append([]int{c.t}, pa.Params[pos:]...)...)
			if len(pa.ParamSpell) > 0 {
				// per-parameter spellings stay aligned with the parameters
				for len(pa.ParamSpell) < len(pa.Params)-1 {
					pa.ParamSpell = append(pa.ParamSpell, "")
				}
				pa.ParamSpell = append(pa.ParamSpell[:pos], append([]string{""}, pa.ParamSpell[pos:]...)...)
			}
			seenKind[c.kind]++
			if !cl.Interpret(cl.Injectors[0]).Valid() {
				out = append(out, Planted{Spec: cl, Kind: c.kind, Names: [][]string{provNames(cl, c.a), provNames(cl, c.b)},
					Note: fmt.Sprintf("provider %s now also takes %s, supplied by %s", pa.Fn, cl.Expr(c.t, ""), cl.Provs[c.b].Fn)})
			}
		}
	}
	// ---- duplicate suppliers
	var supplied []int
	for t, sp := range base.Suppliers {
		if s.Types[t].Kind != KRaw && s.Types[t].Kind != KCtx && s.Provs[sp.Prov].Kind != PValue {
			supplied = append(supplied, t)
		}
	}
	sortInts(supplied)
	if len(supplied) > 0 {
		// (1) a second function provider for an already supplied type (needed or not)
		t := supplied[r.Intn(len(supplied))]
		cl := s.Clone()
		pid := cl.addP(&Prov{Kind: PFunc, Fn: fmt.Sprintf("DupP%d", len(cl.Provs)), Results: []int{t}, Async: r.Intn(2) == 0})
		addItem(cl, pid)
		out = append(out, Planted{Spec: cl, Kind: "dup-providers", Names: [][]string{cl.TypeNames(t)}, Note: "second provider of " + cl.Expr(t, "")})
		// (3) a struct field of an already supplied type
		t = supplied[r.Intn(len(supplied))]
		if s.typePkg(t) == "" {
			cl = s.Clone()
			st := cl.addT(&Type{Kind: KStruct, Name: cl.nextTypeName("DupHolder"), Base: -1, Fields: []Field{{Name: "Dup", T: t}}})
			p1 := cl.addP(&Prov{Kind: PFunc, Fn: fmt.Sprintf("DupHolderP%d", len(cl.Provs)), Results: []int{st}})
			p2 := cl.addP(&Prov{Kind: PStruct, Results: []int{st}})
			addItem(cl, p1)
			addItem(cl, p2)
			out = append(out, Planted{Spec: cl, Kind: "dup-field", Names: [][]string{cl.TypeNames(t)}, Note: "field of type " + cl.Expr(t, "") + " conflicts with its provider"})
		}
	}
	// (1b) a second provider for a type that an ALIAS-declared field of an
	// expanded struct supplies (the same type under another spelling); chosen
	// deterministically: the smallest such type id
	for _, t := range supplied {
		sp := base.Suppliers[t]
		if sp.Field < 0 {
			continue
		}
		sb := s.structBase(sp.Via)
		if sb < 0 || sp.Field >= len(s.Types[sb].Fields) || s.Types[sb].Fields[sp.Field].Alias == "" {
			continue
		}
		cl := s.Clone()
		pid := cl.addP(&Prov{Kind: PFunc, Fn: fmt.Sprintf("DupAliasP%d", len(cl.Provs)), Results: []int{t}})
		cl.Injectors[0].Items = append(cl.Injectors[0].Items, Item{Prov: pid})
		out = append(out, Planted{Spec: cl, Kind: "dup-alias-field", Names: [][]string{cl.TypeNames(t)}, Note: "second provider of " + cl.Expr(t, "") + ", which a field declared through an alias supplies"})
		break
	}
	// (2) provider vs Bind: a second implementation bound to an interface that is already supplied
	for _, t := range supplied {
		if s.Types[t].Kind == KIface && s.Types[t].Pkg == "" {
			cl := s.Clone()
			st := cl.addT(&Type{Kind: KStruct, Name: cl.nextTypeName("DupImpl"), Base: -1, Impl: []int{t}})
			pid := cl.addP(&Prov{Kind: PFunc, Fn: fmt.Sprintf("DupImplP%d", len(cl.Provs)), Results: []int{st}, Binds: []int{t}})
			addItem(cl, pid)
			out = append(out, Planted{Spec: cl, Kind: "dup-bind", Names: [][]string{cl.TypeNames(t)}, Note: "second Bind to " + cl.Expr(t, "")})
			break
		}
	}
	// (4) two expanded structs with a field of the same (fresh) type; (5) one struct with two such fields
	for _, kind := range []string{"dup-two-structs", "dup-same-struct"} {
		cl := s.Clone()
		u := cl.addT(&Type{Kind: KNamedInt, Name: cl.nextTypeName("Shared"), Base: -1})
		if kind == "dup-two-structs" {
			for k := 0; k < 2; k++ {
				st := cl.addT(&Type{Kind: KStruct, Name: cl.nextTypeName("HolderS"), Base: -1, Fields: []Field{{Name: fmt.Sprintf("Fs%d", k), T: u}}})
				use := st
				if k == 1 {
					use = cl.addT(&Type{Kind: KPtr, Base: st})
				}
				p1 := cl.addP(&Prov{Kind: PFunc, Fn: fmt.Sprintf("HolderP%d", len(cl.Provs)), Results: []int{use}})
				p2 := cl.addP(&Prov{Kind: PStruct, Results: []int{use}})
				addItem(cl, p1)
				addItem(cl, p2)
			}
		} else {
			st := cl.addT(&Type{Kind: KStruct, Name: cl.nextTypeName("HolderD"), Base: -1, Fields: []Field{{Name: "Alpha", T: u}, {Name: "Beta", T: u}}})
			p1 := cl.addP(&Prov{Kind: PFunc, Fn: fmt.Sprintf("HolderP%d", len(cl.Provs)), Results: []int{st}})
			p2 := cl.addP(&Prov{Kind: PStruct, Results: []int{st}})
			addItem(cl, p1)
			addItem(cl, p2)
		}
		out = append(out, Planted{Spec: cl, Kind: kind, Names: [][]string{cl.TypeNames(u)}, Note: "two struct fields of type " + cl.Expr(u, "")})
	}
	// ---- orphan Struct
	{
		cl := s.Clone()
		f := cl.addT(&Type{Kind: KNamedStr, Name: cl.nextTypeName("OrphanField"), Base: -1})
		st := cl.addT(&Type{Kind: KStruct, Name: cl.nextTypeName("Orphan"), Base: -1, Fields: []Field{{Name: "Of", T: f}}})
		use := st
		if r.Intn(2) == 0 {
			use = cl.addT(&Type{Kind: KPtr, Base: st})
		}
		pid := cl.addP(&Prov{Kind: PStruct, Results: []int{use}})
		addItem(cl, pid)
		out = append(out, Planted{Spec: cl, Kind: "orphan", Names: [][]string{cl.TypeNames(use)}, Note: "Struct[" + cl.Expr(use, "") + "] without a source"})
	}
	// ---- the same providers reached twice: a Set variable listed twice, or
	// listed directly and again inside another Set (diamond)
	if len(fn) > 0 {
		for variant := 0; variant < 2; variant++ {
			cl := s.Clone()
			// a provider of ordinary named types (a raw alias type may be named
			// by its target in the diagnostic)
			var plain []int
			for _, f := range fn {
				ok := true
				for _, t := range s.Provs[f].Results {
					if s.Types[t].Kind == KRaw {
						ok = false
					}
				}
				if ok {
					plain = append(plain, f)
				}
			}
			if len(plain) == 0 {
				break
			}
			pid := plain[r.Intn(len(plain))]
			setName := cl.nextTypeName("SharedSet")
			cl.Sets = append(cl.Sets, &SetDef{Name: setName, Items: []Item{{Prov: pid}}, File: cl.Injectors[0].File})
			in := cl.Injectors[0]
			// the provider itself now only comes through the set
			var items []Item
			var strip func(its []Item) []Item
			strip = func(its []Item) []Item {
				var o []Item
				for _, it := range its {
					switch {
					case it.Inline != nil:
						it.Inline = strip(it.Inline)
						if len(it.Inline) > 0 {
							o = append(o, it)
						}
					case it.Set == "" && it.Raw == "" && it.Prov == pid:
					default:
						o = append(o, it)
					}
				}
				return o
			}
			items = strip(in.Items)
			for _, sd := range cl.Sets {
				if sd.Name != setName {
					sd.Items = strip(sd.Items)
				}
			}
			kind := "dup-set-listed-twice"
			if variant == 0 {
				items = append(items, Item{Prov: -1, Set: setName}, Item{Prov: -1, Set: setName})
			} else {
				kind = "dup-set-diamond"
				outer := cl.nextTypeName("OuterSet")
				cl.Sets = append(cl.Sets, &SetDef{Name: outer, Items: []Item{{Prov: -1, Set: setName}}, File: in.File})
				items = append(items, Item{Prov: -1, Set: setName}, Item{Prov: -1, Set: outer})
			}
			in.Items = items
			out = append(out, Planted{Spec: cl, Kind: kind, Names: [][]string{provNames(cl, pid)}, Note: "provider " + cl.Provs[pid].Fn + " reached twice through set " + setName})
		}
	}
	// every planted spec must be invalid by the reference
	var chk []Planted
	for _, p := range out {
		if !p.Spec.Interpret(p.Spec.Injectors[0]).Valid() {
			chk = append(chk, p)
		}
	}
	return chk
}
