package spec

import (
	"fmt"
	"regexp"
	"strings"
)

// Static (identity-free) part of the type universe: every construct the
// generator must be able to spell. Programs using them are compiled and
// type-checked but never executed.

func (g *gen) feature(f string) {
	for _, x := range g.s.Features {
		if x == f {
			return
		}
	}
	g.s.Features = append(g.s.Features, f)
}

// rawNamed declares a fresh empty named struct and returns its name.
func (g *gen) rawNamed() string {
	n := g.typeName()
	g.s.ExtraDecl += fmt.Sprintf("type %s struct{ f%s int }\n", n, n)
	return n
}

func (g *gen) genericDecl() string {
	name := "GBox"
	if !strings.Contains(g.s.ExtraDecl, "type GBox[") {
		g.s.ExtraDecl += "type GBox[T any] struct{ v T }\ntype GPair[K comparable, V any] struct {\n\tk K\n\tv V\n}\n"
	}
	return name
}

// RawCases is the number of plain raw type cases; ExtInCases the number of
// sibling-package-in-position cases (forced indices RawCases..RawCases+ExtInCases-1).
const RawCases = 30
const ExtInCases = 17

// rawType creates a static type. Each call yields a type distinct from all
// earlier ones (fresh named components).
// extIn builds a composite type that mentions a sibling-package type in one
// syntactic position; the import is needed only through that position.
func (g *gen) extIn(which int) (string, string, []string) {
	e := g.s.ExtPkgs[g.r.Intn(len(g.s.ExtPkgs))]
	et := g.addType(&Type{Kind: KStruct, Name: g.typeName(), Pkg: e.Dir, Base: -1})
	x := g.s.Expr(et, "")
	names := []string{g.s.Types[et].Name}
	if which < 0 {
		which = g.r.Intn(ExtInCases)
	}
	if which == 12 || which == 13 {
		// an alias declared in the sibling package (a re-export)
		a := g.typeNameIn(e.Dir)
		if g.s.ExtDecl == nil {
			g.s.ExtDecl = map[string]string{}
		}
		g.s.ExtDecl[e.Dir] += fmt.Sprintf("type %s = %s\n", a, g.s.Types[et].Name)
		ax := g.s.importName(e.Dir) + "." + a
		if which == 12 {
			return ax, "ext-alias", []string{a, g.s.Types[et].Name}
		}
		return "*" + ax, "ext-alias-ptr", []string{a, g.s.Types[et].Name}
	}
	if which >= 14 && which <= 16 {
		// generic types declared in the sibling package, instantiated inside
		// one another; the innermost type argument comes from a package that
		// nothing else in the declaration mentions
		if g.s.ExtDecl == nil {
			g.s.ExtDecl = map[string]string{}
		}
		if !strings.Contains(g.s.ExtDecl[e.Dir], "type Option[") {
			g.s.ExtDecl[e.Dir] += "type Option[T any] struct{ V T }\ntype Page[T any] struct{ Items []T }\n"
		}
		q := g.s.importName(e.Dir)
		names = append(names, "Option", "Page")
		switch which {
		// each expression mentions the fresh type x, so that two draws never
		// denote the same Go type (they are distinct types in the model)
		case 14:
			return q + ".Option[" + q + ".Page[map[" + x + "]time.Duration]]", "ext-generic-nested-foreign-arg", names
		case 15:
			return "func(" + x + ") " + q + ".Page[*big.Int]", "ext-generic-in-func-result", names
		default:
			return "map[" + x + "]" + q + ".Option[[]" + q + ".Page[netip.Addr]]", "ext-generic-nested-in-map", names
		}
	}
	switch which {
	case 0:
		return "map[" + x + "]string", "ext-in-map-key", names
	case 1:
		return "map[string]" + x, "ext-in-map-value", names
	case 2:
		return "[]*" + x, "ext-in-slice", names
	case 3:
		return "[3]" + x, "ext-in-array", names
	case 4:
		return "<-chan " + x, "ext-in-chan", names
	case 5:
		return "func(" + x + ") error", "ext-in-func-param", names
	case 6:
		return "func() (*" + x + ", error)", "ext-in-func-result", names
	case 7:
		return "struct {\n\tA " + x + "\n}", "ext-in-struct-field", names
	case 8:
		return "interface{ Get() " + x + " }", "ext-in-iface-method", names
	case 9:
		g.genericDecl()
		return "GBox[" + x + "]", "ext-in-generic-arg", names
	case 10:
		return "**" + x, "ext-in-ptr-ptr", names
	default:
		return "map[" + x + "][]func(*" + x + ") bool", "ext-in-nested", names
	}
}

func (g *gen) rawType() int {
	g.s.Dynamic = false
	force := -1
	if g.o.ForceRaw > 0 && !g.forced {
		g.forced = true
		force = g.o.ForceRaw - 1
	}
	if len(g.s.ExtPkgs) > 0 && ((force < 0 && g.r.Intn(4) == 0) || force >= RawCases) {
		w := -1
		if force >= RawCases {
			w = force - RawCases
		}
		raw, feat, names := g.extIn(w)
		g.feature(feat)
		return g.addType(&Type{Kind: KRaw, Raw: raw, Base: -1, BaseVar: feat, RawNames: names})
	}
	n := g.rawNamed()
	var raw, feat string
	pick := g.r.Intn(RawCases)
	if force >= 0 && force < RawCases {
		pick = force
	}
	switch pick {
	case 0:
		raw, feat = "chan "+n, "chan"
	case 1:
		raw, feat = "<-chan "+n, "chan-recv"
	case 2:
		raw, feat = "chan<- *"+n, "chan-send"
	case 3:
		raw, feat = fmt.Sprintf("func(%s, string) (*%s, error)", n, n), "func-type"
	case 4:
		raw, feat = fmt.Sprintf("func(...%s)", n), "variadic-func-type"
	case 5:
		raw, feat = fmt.Sprintf("func(int, ...*%s) bool", n), "variadic-func-type"
	case 6:
		raw, feat = fmt.Sprintf("interface{ Get() %s }", n), "anon-iface"
	case 7:
		raw, feat = fmt.Sprintf("interface {\n\tDo(c context.Context, n %s) error\n\tName() string\n}", n), "anon-iface"
	case 8:
		g.genericDecl()
		raw, feat = "GBox["+n+"]", "generic"
	case 9:
		g.genericDecl()
		raw, feat = "*GPair[string, *"+n+"]", "generic"
	case 10:
		g.genericDecl()
		raw, feat = "GBox[GBox[int]]", "generic"
		if g.hasRaw(raw) {
			raw = "[]GBox[" + n + "]"
		}
	case 11:
		a := g.typeName()
		g.s.ExtraDecl += fmt.Sprintf("type %s = %s\n", a, n)
		raw, feat = a, "alias"
	case 12:
		a := g.typeName()
		g.s.ExtraDecl += fmt.Sprintf("type %s = *%s\n", a, n)
		raw, feat = a, "alias-ptr"
	case 13:
		raw, feat = "**"+n, "ptr-ptr"
	case 14:
		raw, feat = "[]*"+n, "slice-ptr"
	case 15:
		k := g.rawNamed()
		raw, feat = fmt.Sprintf("map[%s]*%s", k, n), "map-structkey"
	case 16:
		raw, feat = "[3]"+n, "array"
	case 17:
		raw, feat = "[]map[string][]"+n, "nested-composite"
	case 18:
		raw, feat = fmt.Sprintf("struct {\n\tA %s\n\tB int\n}", n), "anon-struct"
	case 19:
		raw, feat = fmt.Sprintf("struct {\n\tA %s `json:\"a\"`\n}", n), "tagged-struct"
	case 20:
		raw, feat = fmt.Sprintf("struct {\n\t%s\n\tX int\n}", n), "embedded-anon-struct"
	case 21:
		h := g.typeName()
		g.s.ExtraDecl += fmt.Sprintf("type %s func(%s) error\n", h, n)
		raw, feat = h, "named-func"
	case 22:
		h := g.typeName()
		g.s.ExtraDecl += fmt.Sprintf("type %s []*%s\n", h, n)
		raw, feat = h, "named-slice"
	case 23:
		h := g.typeName()
		g.s.ExtraDecl += fmt.Sprintf("type %s map[string]%s\n", h, n)
		raw, feat = "*"+h, "ptr-named-map"
	case 24:
		h := g.typeName()
		g.s.ExtraDecl += fmt.Sprintf("type %s chan %s\n", h, n)
		raw, feat = h, "named-chan"
	case 25:
		raw, feat = "chan (<-chan "+n+")", "chan-of-chan"
	case 26:
		raw, feat = fmt.Sprintf("func() func() *%s", n), "func-returning-func"
	case 27:
		raw, feat = fmt.Sprintf("map[string]func(%s) (int, error)", n), "map-of-func"
	case 28:
		h := g.typeName()
		g.s.ExtraDecl += fmt.Sprintf("type %s interface {\n\tM%s() *%s\n}\n", h, h, n)
		raw, feat = h, "named-iface"
	default:
		for _, b := range []string{"bool", "byte", "rune", "float64", "complex128", "uintptr", "[]byte", "any", "float32", "int8", "uint16"} {
			if !g.hasRaw(b) {
				raw, feat = b, "basic:"+b
				break
			}
		}
		if raw == "" {
			raw, feat = "[]*"+n, "slice-ptr"
		}
	}
	g.feature(feat)
	var names []string
	for _, w := range regexp.MustCompile(`[A-Za-z_][A-Za-z0-9_]*`).FindAllString(raw, -1) {
		if g.names[w] || w == "bool" || w == "byte" || w == "rune" || w == "float64" || w == "complex128" || w == "uintptr" || w == "any" || w == "float32" || w == "int8" || w == "uint16" {
			names = append(names, w)
		}
	}
	return g.addType(&Type{Kind: KRaw, Raw: raw, Base: -1, BaseVar: feat, RawNames: names})
}

func (g *gen) hasRaw(raw string) bool {
	for _, t := range g.s.Types {
		if t.Kind == KRaw && t.Raw == raw {
			return true
		}
	}
	return false
}

// hostileDecls adds lower-case package-level identifiers equal to names the
// generator would like to use for variables of the spec's named types.
func (g *gen) hostileDecls() {
	used := map[string]bool{}
	k := 0
	// every second program keeps these identifiers in a file that another code
	// generator wrote (header "Code generated ... DO NOT EDIT."): still user code
	decl := &g.s.ExtraDecl
	if g.r.Intn(2) == 0 {
		decl = &g.s.GeneratedDecl
		g.feature("pkglevel-names-in-a-file-generated-by-another-tool")
	}
	for _, t := range g.s.Types {
		if t.Name == "" || t.Pkg != "" || (t.Kind != KStruct && t.Kind != KNamedInt && t.Kind != KNamedStr && t.Kind != KIface) {
			continue
		}
		lc := lowerCamel(t.Name)
		if used[lc] || lc == t.Name || isKeywordOrPredeclared(lc) || harnessNames[lc] || g.r.Intn(3) != 0 {
			continue
		}
		used[lc] = true
		switch k % 4 {
		case 0:
			*decl += fmt.Sprintf("var %s = %d\n", lc, k)
		case 1:
			*decl += fmt.Sprintf("func %s() {}\n", lc)
		case 2:
			*decl += fmt.Sprintf("const %s = %q\n", lc, lc)
		case 3:
			*decl += fmt.Sprintf("type %s struct{}\n", lc)
		}
		g.feature("pkglevel:" + lc)
		k++
	}
	if g.r.Intn(6) == 0 {
		// the user imports kessoku under an alias and owns the identifier "kessoku"
		g.s.KessokuAlias = []string{"ksk", "di", "k"}[g.r.Intn(3)]
		g.s.ExtraDecl += "var kessoku = \"user identifier\"\n"
		g.feature("pkglevel:kessoku+aliased-import")
	}
	for _, n := range []string{"eg", "ctx", "ch", "zero", "err", "errgroup"} {
		if g.r.Intn(12) == 0 && !used[n] {
			used[n] = true
			g.s.ExtraDecl += fmt.Sprintf("var %s = %q\n", n, n)
			g.feature("pkglevel:" + n)
		}
	}
}

func lowerCamel(s string) string {
	i := 0
	for i < len(s) && s[i] >= 'A' && s[i] <= 'Z' {
		i++
	}
	return strings.ToLower(s[:i]) + s[i:]
}

// identifiers the harness files themselves use at file scope
var harnessNames = map[string]bool{"probe": true, "fmt": true, "ext": true, "xt": true, "store": true, "config": true, "client": true, "ordersstore": true, "ordersconfig": true, "ordersclient": true, "itemsstore": true, "itemsconfig": true, "itemsclient": true, "context": true, "kessoku": true, "reflect": true}

var kwPre = map[string]bool{}

func init() {
	for _, k := range strings.Fields("break default func interface select case defer go map struct chan else goto package switch const fallthrough if range type continue for import return var any bool byte comparable complex64 complex128 error float32 float64 int int8 int16 int32 int64 rune string uint uint8 uint16 uint32 uint64 uintptr true false iota nil append cap clear close complex copy delete imag len make max min new panic print println real recover") {
		kwPre[k] = true
	}
}

func isKeywordOrPredeclared(s string) bool { return kwPre[s] }

// IsKeywordOrPredeclared is exported for the scope checker.
func IsKeywordOrPredeclared(s string) bool { return kwPre[s] }

// foreignChain (static): a value whose type mentions packages that NO file
// of the main package imports. Producer and consumer both live in the first
// sibling package, so the main package only ever says ext.NewX / ext.NewY; the
// generator has to import the foreign packages by itself wherever it spells
// the type (var block of an injector with goroutines, argument, result).
// Returns the consumer's result type (a pointer to a sibling-package struct).
func (g *gen) foreignChain(depth int) int {
	e := g.s.ExtPkgs[0]
	var raw, feat string
	var names []string
	same := []ExtPkg{}
	for _, x := range g.s.ExtPkgs[1:] {
		if x.Name == g.s.ExtPkgs[len(g.s.ExtPkgs)-1].Name {
			same = append(same, x)
		}
	}
	k := g.r.Intn(6)
	if len(same) < 2 && k >= 4 {
		k = g.r.Intn(4)
	}
	switch k {
	case 0:
		raw, feat = "*url.URL", "foreign-stdlib-pointer"
	case 1:
		raw, feat = "time.Duration", "foreign-stdlib-named"
	case 2:
		raw, feat = "map[netip.Addr]*big.Int", "foreign-stdlib-two-packages-in-one-type"
	case 3:
		raw, feat = "[]*url.URL", "foreign-stdlib-slice"
	default:
		// two sibling packages that share one package name, in one type
		a := g.addType(&Type{Kind: KStruct, Name: g.typeNameIn(same[0].Dir), Pkg: same[0].Dir, Base: -1})
		b := g.addType(&Type{Kind: KStruct, Name: g.typeNameIn(same[1].Dir), Pkg: same[1].Dir, Base: -1})
		raw = "map[*" + g.s.Expr(a, "") + "]*" + g.s.Expr(b, "")
		if k == 5 {
			raw = "func(" + g.s.Expr(a, "") + ") *" + g.s.Expr(b, "")
		}
		feat = "foreign-same-named-sibling-packages-in-one-type"
		names = []string{g.s.Types[a].Name, g.s.Types[b].Name}
	}
	if g.usedRaw == nil {
		g.usedRaw = map[string]bool{}
	}
	if g.usedRaw[raw] {
		// the same Go type a second time would be a second supplier of one type
		return g.boundIface(depth)
	}
	g.usedRaw[raw] = true
	g.s.Dynamic = false
	g.feature(feat)
	for _, w := range []string{"url", "URL", "Duration", "netip", "Addr", "big", "Int"} {
		if strings.Contains(raw, w) {
			names = append(names, w)
		}
	}
	t := g.addType(&Type{Kind: KRaw, Raw: raw, Base: -1, BaseVar: feat, RawNames: names})
	p1 := &Prov{Kind: PFunc, Pkg: e.Dir, Results: []int{t}, Async: g.r.Float64() < g.o.AsyncP, Err: g.r.Intn(3) == 0}
	id1 := g.addProv(p1)
	p1.Fn = fmt.Sprintf("NewForeignP%d", id1)
	g.budget--
	rs := g.addType(&Type{Kind: KStruct, Name: g.typeNameIn(e.Dir), Pkg: e.Dir, Base: -1})
	rp := g.addType(&Type{Kind: KPtr, Base: rs})
	p2 := &Prov{Kind: PFunc, Pkg: e.Dir, Params: []int{t}, Results: []int{rp}, Async: g.r.Float64() < g.o.AsyncP}
	id2 := g.addProv(p2)
	p2.Fn = fmt.Sprintf("NewConsumerP%d", id2)
	g.budget--
	g.done = append(g.done, rp)
	return rp
}
