package spec

import (
	"fmt"
	"math/rand"
)

// Small-scope enumeration: all DAG shapes over n function providers in which
// node n-1 is the requested root and every other node has at least one
// consumer with a higher index (so every provider is needed), times all
// Async masks, times parameter orders. Many injectors share one package
// (each uses its own provider functions), which also exercises the shared
// name allocator across injectors.

// DagCount returns the number of shapes for n nodes.
func DagCount(n int) int {
	c := 1
	for i := 0; i < n-1; i++ {
		c *= (1 << (n - 1 - i)) - 1
	}
	return c
}

// dagConsumers decodes shape index k into consumer sets: cons[i] = list of j>i.
func dagConsumers(n, k int) [][]int {
	cons := make([][]int, n)
	for i := 0; i < n-1; i++ {
		m := (1 << (n - 1 - i)) - 1
		sub := k%m + 1 // non-empty subset of {i+1..n-1}
		k /= m
		for b := 0; b < n-1-i; b++ {
			if sub&(1<<b) != 0 {
				cons[i] = append(cons[i], i+1+b)
			}
		}
	}
	return cons
}

// EnumCase identifies one enumerated injector.
type EnumCase struct {
	N         int
	Shape     int
	Mask      int     // bit i = node i Async
	Desc      bool    // parameters in descending producer order
	ErrMask   int     // bit i = node i fallible
	FieldMask int     // bit i = node i returns a struct that is expanded; its consumers take the field
	PairMask  int     // bit i = node i returns two values; its consumers take them alternately (the first consumer the SECOND value)
	Cons      [][]int // explicit consumer lists (layered family); nil = decode Shape
}

// EnumCases lists all cases for n (both parameter orders when both is set).
func EnumCases(n int, both bool) []EnumCase {
	var out []EnumCase
	for k := 0; k < DagCount(n); k++ {
		for m := 0; m < 1<<n; m++ {
			out = append(out, EnumCase{N: n, Shape: k, Mask: m})
			if both {
				out = append(out, EnumCase{N: n, Shape: k, Mask: m, Desc: true})
			}
		}
	}
	return out
}

// EnumSpec builds one package holding the given cases. errP gives the
// probability (decided by r) that a node is fallible.
func EnumSpec(name string, cases []EnumCase, r *rand.Rand, errP float64) *Spec {
	s := &Spec{Name: name, PkgName: name, Dynamic: true, Files: []string{"kessoku.go"}}
	maxN := 0
	for _, c := range cases {
		if c.N > maxN {
			maxN = c.N
		}
	}
	// shared result types: node i -> *Ni; and for expanded nodes: *Holder_i{ F_i Field_i }
	var tids, hids, fids, mids []int
	for i := 0; i < maxN; i++ {
		b := len(s.Types)
		s.Types = append(s.Types, &Type{ID: b, Kind: KStruct, Name: fmt.Sprintf("Node%d", i), Base: -1})
		s.Types = append(s.Types, &Type{ID: b + 1, Kind: KPtr, Base: b})
		tids = append(tids, b+1)
		s.Types = append(s.Types, &Type{ID: b + 2, Kind: KNamedInt, Name: fmt.Sprintf("Field%d", i), Base: -1})
		s.Types = append(s.Types, &Type{ID: b + 3, Kind: KStruct, Name: fmt.Sprintf("Holder%d", i), Base: -1, Fields: []Field{{Name: fmt.Sprintf("F%d", i), T: b + 2}}})
		s.Types = append(s.Types, &Type{ID: b + 4, Kind: KPtr, Base: b + 3})
		fids = append(fids, b+2)
		hids = append(hids, b+4)
		s.Types = append(s.Types, &Type{ID: b + 5, Kind: KStruct, Name: fmt.Sprintf("Mate%d", i), Base: -1})
		s.Types = append(s.Types, &Type{ID: b + 6, Kind: KPtr, Base: b + 5})
		mids = append(mids, b+6)
	}
	for ci, c := range cases {
		cons := c.Cons
		if cons == nil {
			cons = dagConsumers(c.N, c.Shape)
		}
		// producers of node j
		prods := make([][]int, c.N)
		for i, cs := range cons {
			for _, j := range cs {
				prods[j] = append(prods[j], i)
			}
		}
		base := len(s.Provs)
		var items []Item
		pair := func(i int) bool { return c.PairMask&(1<<i) != 0 && c.FieldMask&(1<<i) == 0 && i != c.N-1 }
		out := func(i, j int) int { // what consumer j of node i takes
			if c.FieldMask&(1<<i) != 0 && i != c.N-1 {
				return fids[i]
			}
			if pair(i) {
				for k, x := range cons[i] {
					if x == j && k%2 == 0 {
						return mids[i]
					}
				}
			}
			return tids[i]
		}
		for j := 0; j < c.N; j++ {
			p := &Prov{ID: base + j, Kind: PFunc, Fn: fmt.Sprintf("E%dN%d", ci, j), Results: []int{tids[j]}}
			if c.FieldMask&(1<<j) != 0 && j != c.N-1 {
				p.Results = []int{hids[j]}
			}
			ps := append([]int{}, prods[j]...)
			if c.Desc {
				for a, b := 0, len(ps)-1; a < b; a, b = a+1, b-1 {
					ps[a], ps[b] = ps[b], ps[a]
				}
			}
			if pair(j) {
				p.Results = []int{tids[j], mids[j]}
			}
			for _, i := range ps {
				p.Params = append(p.Params, out(i, j))
			}
			p.Async = c.Mask&(1<<j) != 0
			if c.ErrMask&(1<<j) != 0 || (errP > 0 && r.Float64() < errP) {
				p.Err = true
			}
			s.Provs = append(s.Provs, p)
			items = append(items, Item{Prov: p.ID})
		}
		for j := 0; j < c.N-1; j++ {
			if c.FieldMask&(1<<j) != 0 {
				sp := &Prov{ID: len(s.Provs), Kind: PStruct, Results: []int{hids[j]}}
				s.Provs = append(s.Provs, sp)
				items = append(items, Item{Prov: sp.ID})
			}
		}
		// declaration order: root first or last, alternating
		if ci%2 == 1 {
			for a, b := 0, len(items)-1; a < b; a, b = a+1, b-1 {
				items[a], items[b] = items[b], items[a]
			}
		}
		d := ""
		if c.Desc {
			d = "d"
		}
		if c.FieldMask != 0 {
			d += fmt.Sprintf("f%d", c.FieldMask)
		}
		if c.PairMask != 0 {
			d += fmt.Sprintf("p%d", c.PairMask)
		}
		shape := fmt.Sprint(c.Shape)
		if c.Shape < 0 {
			shape = fmt.Sprintf("L%d", -c.Shape)
		}
		s.Injectors = append(s.Injectors, &Injector{Name: fmt.Sprintf("Enum%d_%s_%d%s_%d", c.N, shape, c.Mask, d, ci), Ret: tids[c.N-1], Items: items})
	}
	return s
}

// EnumSpecs partitions cases into packages of at most per injectors.
func EnumSpecs(prefix string, cases []EnumCase, per int, seed int64, errP float64) []*Spec {
	r := rand.New(rand.NewSource(seed))
	var out []*Spec
	for i := 0; i < len(cases); i += per {
		j := i + per
		if j > len(cases) {
			j = len(cases)
		}
		out = append(out, EnumSpec(fmt.Sprintf("%s%03d", prefix, len(out)), cases[i:j], r, errP))
	}
	return out
}

// SampleCases draws k cases without replacement (deterministic in seed).
func SampleCases(cases []EnumCase, k int, seed int64) []EnumCase {
	r := rand.New(rand.NewSource(seed))
	idx := r.Perm(len(cases))
	if k > len(idx) {
		k = len(idx)
	}
	var out []EnumCase
	for _, i := range idx[:k] {
		out = append(out, cases[i])
	}
	return out
}

// WithFieldVariants adds, for a deterministic third of the cases, a variant
// in which a random non-empty subset of the non-root nodes hand their value
// on through an expanded struct field.
func WithFieldVariants(cases []EnumCase, seed int64) []EnumCase {
	r := rand.New(rand.NewSource(seed))
	out := append([]EnumCase{}, cases...)
	for _, c := range cases {
		if c.N < 2 || r.Intn(3) != 0 {
			continue
		}
		m := 1 + r.Intn((1<<(c.N-1))-1)
		v := c
		v.FieldMask = m
		out = append(out, v)
	}
	return out
}

// WithPairVariants adds, for a deterministic third of the cases, a variant in
// which a random non-empty subset of the non-root nodes return TWO values that
// their consumers take alternately (the first consumer the second value, the
// next one the first, ...): completion signals per result, not per provider.
func WithPairVariants(cases []EnumCase, seed int64) []EnumCase {
	r := rand.New(rand.NewSource(seed))
	out := append([]EnumCase{}, cases...)
	for _, c := range cases {
		if c.N < 3 || c.FieldMask != 0 || r.Intn(3) != 0 {
			continue
		}
		v := c
		v.PairMask = 1 + r.Intn((1<<(c.N-1))-1)
		out = append(out, v)
	}
	return out
}

// EnumCasesSampled draws k random cases for n providers without building the
// whole case list (n = 6 has 1.25 million cases).
func EnumCasesSampled(n, k int, seed int64) []EnumCase {
	r := rand.New(rand.NewSource(seed))
	var out []EnumCase
	dc := DagCount(n)
	for i := 0; i < k; i++ {
		out = append(out, EnumCase{N: n, Shape: r.Intn(dc), Mask: r.Intn(1 << n), Desc: r.Intn(2) == 0})
	}
	return out
}

// LayeredCases draws k application-shaped DAGs: 1-2 roots, a layer of 2-3
// nodes fed by the roots, a layer of 2-3 nodes fed by 1-2 nodes of the layer
// before (cross links between parallel chains are likely), and a sink that
// consumes the last layer (and sometimes earlier nodes). Async marking is
// biased: middle layers mostly Async, roots and sink either way.
func LayeredCases(k int, seed int64) []EnumCase {
	r := rand.New(rand.NewSource(seed))
	var out []EnumCase
	for i := 0; i < k; i++ {
		nr := 1 + r.Intn(2)
		n1 := 2 + r.Intn(2)
		n2 := 2 + r.Intn(2)
		n := nr + n1 + n2 + 1
		cons := make([][]int, n)
		add := func(from, to int) {
			for _, x := range cons[from] {
				if x == to {
					return
				}
			}
			cons[from] = append(cons[from], to)
		}
		l0, l1, l2, sink := 0, nr, nr+n1, n-1
		for j := l1; j < l2; j++ { // layer 1 <- roots
			add(l0+r.Intn(nr), j)
			if nr > 1 && r.Intn(3) == 0 {
				add(l0+r.Intn(nr), j)
			}
		}
		for j := l2; j < sink; j++ { // layer 2 <- layer 1
			add(l1+r.Intn(n1), j)
			if r.Intn(2) == 0 {
				add(l1+r.Intn(n1), j)
			}
		}
		for j := l2; j < sink; j++ {
			add(j, sink)
		}
		// every node needs a consumer
		for j := 0; j < sink; j++ {
			if len(cons[j]) == 0 {
				if j < l1 {
					add(j, l1+r.Intn(n1))
				} else if j < l2 {
					if r.Intn(2) == 0 {
						add(j, l2+r.Intn(n2))
					} else {
						add(j, sink)
					}
				}
			}
		}
		if r.Intn(3) == 0 {
			add(l0+r.Intn(nr), sink)
		}
		for j := range cons {
			sortInts(cons[j])
		}
		mask := 0
		for j := 0; j < n; j++ {
			p := 50
			if j >= l1 && j < sink {
				p = 85
			}
			if r.Intn(100) < p {
				mask |= 1 << j
			}
		}
		out = append(out, EnumCase{N: n, Shape: -1 - i, Mask: mask, Desc: r.Intn(2) == 0, Cons: cons})
	}
	return out
}

// DeepCases draws k four-layer DAGs: one root, 3-4 nodes fed by it, 1-2 nodes
// each fed by two of those, 1-2 nodes each fed by one node of the second layer
// and one of the third (so that two parallel chains need each other's values
// at different depths), and a sink that consumes every other node (two cases
// in three) or only the nodes nobody else consumes. Roots are mostly
// synchronous, the middle mostly Async, the last layer either way.
func DeepCases(k int, seed int64) []EnumCase {
	r := rand.New(rand.NewSource(seed))
	var out []EnumCase
	for i := 0; i < k; i++ {
		n1 := 3 + r.Intn(2)
		n2 := 1 + r.Intn(2)
		n3 := 1 + r.Intn(2)
		n := 1 + n1 + n2 + n3 + 1
		cons := make([][]int, n)
		add := func(from, to int) {
			for _, x := range cons[from] {
				if x == to {
					return
				}
			}
			cons[from] = append(cons[from], to)
		}
		l1, l2, l3, sink := 1, 1+n1, 1+n1+n2, n-1
		for j := l1; j < l2; j++ {
			add(0, j)
		}
		for j := l2; j < l3; j++ {
			a := l1 + r.Intn(n1)
			b := l1 + r.Intn(n1)
			for b == a {
				b = l1 + r.Intn(n1)
			}
			add(a, j)
			add(b, j)
		}
		for j := l3; j < sink; j++ {
			add(l1+r.Intn(n1), j)
			add(l2+r.Intn(n2), j)
			if j > l3 && r.Intn(2) == 0 {
				add(j-1, j)
			}
		}
		all := r.Intn(3) != 0
		for j := 0; j < sink; j++ {
			if all && j > 0 || len(cons[j]) == 0 {
				add(j, sink)
			}
		}
		if all && r.Intn(2) == 0 {
			add(0, sink)
		}
		for j := range cons {
			sortInts(cons[j])
		}
		mask := 0
		for j := 0; j < n; j++ {
			p := 50
			switch {
			case j == 0:
				p = 25
			case j < l3:
				p = 85
			case j == sink:
				p = 30
			}
			if r.Intn(100) < p {
				mask |= 1 << j
			}
		}
		out = append(out, EnumCase{N: n, Shape: -5000 - i, Mask: mask, Desc: r.Intn(2) == 0, Cons: cons})
	}
	return out
}

// ManyRootsCases draws k injectors with 17-24 input-free providers, almost
// all Async (more goroutines than any fixed fan-out cap one might think of),
// and a sink that needs every one of them.
func ManyRootsCases(k int, seed int64) []EnumCase {
	r := rand.New(rand.NewSource(seed))
	var out []EnumCase
	for i := 0; i < k; i++ {
		w := 17 + r.Intn(8)
		n := w + 1
		cons := make([][]int, n)
		mask := 0
		for j := 0; j < w; j++ {
			cons[j] = []int{w}
			if r.Intn(12) != 0 {
				mask |= 1 << j
			}
		}
		if r.Intn(3) == 0 {
			mask |= 1 << w
		}
		out = append(out, EnumCase{N: n, Shape: -9000 - i, Mask: mask, Desc: r.Intn(2) == 0, Cons: cons})
	}
	return out
}

// WideCases draws k wide DAGs: one root (Async or not), 9-14 middle nodes that
// all need the root (a few also need a neighbour), and a sink that needs every
// middle node: more goroutines in one injector than any other family has, most
// of them parked on a value of the injector's own goroutine at first.
func WideCases(k int, seed int64) []EnumCase {
	r := rand.New(rand.NewSource(seed))
	var out []EnumCase
	for i := 0; i < k; i++ {
		w := 9 + r.Intn(6)
		n := w + 2
		cons := make([][]int, n)
		sink := n - 1
		for j := 1; j <= w; j++ {
			cons[0] = append(cons[0], j)
			cons[j] = append(cons[j], sink)
			if j < w && r.Intn(5) == 0 {
				cons[j] = append([]int{j + 1}, cons[j]...)
			}
		}
		mask := 0
		for j := 1; j <= w; j++ {
			if r.Intn(10) != 0 {
				mask |= 1 << j
			}
		}
		if i%2 == 1 {
			mask |= 1 // Async root
		}
		if r.Intn(3) == 0 {
			mask |= 1 << sink
		}
		out = append(out, EnumCase{N: n, Shape: -1000 - i, Mask: mask, Desc: r.Intn(2) == 0, Cons: cons})
	}
	return out
}
