package spec

import (
	"fmt"
	"math/rand"
)

// Small-scope enumeration: all DAG shapes over n function providers in which
// node n-1 is the requested root and every other node has at least one
// consumer with a higher index (so every provider is needed), times all
// Async masks, times parameter orders. Many injectors share one package
// (each uses its own provider functions), which also exercises the shared
// name allocator across injectors.

// DagCount returns the number of shapes for n nodes.
func DagCount(n int) int {
	c := 1
	for i := 0; i < n-1; i++ {
		c *= (1 << (n - 1 - i)) - 1
	}
	return c
}

// dagConsumers decodes shape index k into consumer sets: cons[i] = list of j>i.
func dagConsumers(n, k int) [][]int {
	cons := make([][]int, n)
	for i := 0; i < n-1; i++ {
		m := (1 << (n - 1 - i)) - 1
		sub := k%m + 1 // non-empty subset of {i+1..n-1}
		k /= m
		for b := 0; b < n-1-i; b++ {
			if sub&(1<<b) != 0 {
				cons[i] = append(cons[i], i+1+b)
			}
		}
	}
	return cons
}

// EnumCase identifies one enumerated injector.
type EnumCase struct {
	N     int
	Shape int
	Mask  int  // bit i = node i Async
	Desc  bool // parameters in descending producer order
	ErrMask int // bit i = node i fallible
}

// EnumCases lists all cases for n (both parameter orders when both is set).
func EnumCases(n int, both bool) []EnumCase {
	var out []EnumCase
	for k := 0; k < DagCount(n); k++ {
		for m := 0; m < 1<<n; m++ {
			out = append(out, EnumCase{N: n, Shape: k, Mask: m})
			if both {
				out = append(out, EnumCase{N: n, Shape: k, Mask: m, Desc: true})
			}
		}
	}
	return out
}

// EnumSpec builds one package holding the given cases. errP gives the
// probability (decided by r) that a node is fallible.
func EnumSpec(name string, cases []EnumCase, r *rand.Rand, errP float64) *Spec {
	s := &Spec{Name: name, PkgName: name, Dynamic: true, Files: []string{"kessoku.go"}}
	maxN := 0
	for _, c := range cases {
		if c.N > maxN {
			maxN = c.N
		}
	}
	// shared result types: node i -> *Ni
	var tids []int
	for i := 0; i < maxN; i++ {
		b := len(s.Types)
		s.Types = append(s.Types, &Type{ID: b, Kind: KStruct, Name: fmt.Sprintf("Node%d", i), Base: -1})
		s.Types = append(s.Types, &Type{ID: b + 1, Kind: KPtr, Base: b})
		tids = append(tids, b+1)
	}
	for ci, c := range cases {
		cons := dagConsumers(c.N, c.Shape)
		// producers of node j
		prods := make([][]int, c.N)
		for i, cs := range cons {
			for _, j := range cs {
				prods[j] = append(prods[j], i)
			}
		}
		base := len(s.Provs)
		var items []Item
		for j := 0; j < c.N; j++ {
			p := &Prov{ID: base + j, Kind: PFunc, Fn: fmt.Sprintf("E%dN%d", ci, j), Results: []int{tids[j]}}
			ps := append([]int{}, prods[j]...)
			if c.Desc {
				for a, b := 0, len(ps)-1; a < b; a, b = a+1, b-1 {
					ps[a], ps[b] = ps[b], ps[a]
				}
			}
			for _, i := range ps {
				p.Params = append(p.Params, tids[i])
			}
			p.Async = c.Mask&(1<<j) != 0
			if c.ErrMask&(1<<j) != 0 || (errP > 0 && r.Float64() < errP) {
				p.Err = true
			}
			s.Provs = append(s.Provs, p)
			items = append(items, Item{Prov: p.ID})
		}
		// declaration order: root first or last, alternating
		if ci%2 == 1 {
			for a, b := 0, len(items)-1; a < b; a, b = a+1, b-1 {
				items[a], items[b] = items[b], items[a]
			}
		}
		d := ""
		if c.Desc {
			d = "d"
		}
		s.Injectors = append(s.Injectors, &Injector{Name: fmt.Sprintf("Enum%d_%d_%d%s_%d", c.N, c.Shape, c.Mask, d, ci), Ret: tids[c.N-1], Items: items})
	}
	return s
}

// EnumSpecs partitions cases into packages of at most per injectors.
func EnumSpecs(prefix string, cases []EnumCase, per int, seed int64, errP float64) []*Spec {
	r := rand.New(rand.NewSource(seed))
	var out []*Spec
	for i := 0; i < len(cases); i += per {
		j := i + per
		if j > len(cases) {
			j = len(cases)
		}
		out = append(out, EnumSpec(fmt.Sprintf("%s%03d", prefix, len(out)), cases[i:j], r, errP))
	}
	return out
}

// SampleCases draws k cases without replacement (deterministic in seed).
func SampleCases(cases []EnumCase, k int, seed int64) []EnumCase {
	r := rand.New(rand.NewSource(seed))
	idx := r.Perm(len(cases))
	if k > len(idx) {
		k = len(idx)
	}
	var out []EnumCase
	for _, i := range idx[:k] {
		out = append(out, cases[i])
	}
	return out
}
