package spec

import (
	"fmt"
	"hash/fnv"
	"math/rand"
	"strconv"
	"strings"
)

// GenOpts steers the random declaration family.
type GenOpts struct {
	MaxProvs        int     // budget of function providers
	AsyncP          float64 // probability a function provider is Async
	ErrP            float64 // probability a function provider is fallible
	MultiInj        int     // number of injectors (>=1)
	Files           int     // number of declaration files (>=1)
	Ext             bool    // allow a sibling package with types/providers
	Hostile         bool    // hostile type names
	Static          bool    // allow static-only (identity-free) types
	CtxP            float64 // probability that a parameter is context.Context
	ManyRoots       bool    // bias to many parameterless providers (C05)
	NoSets          bool
	ForceAsyncRoots bool // parameterless function providers are always Async
	ManyExt         bool // always create the sibling packages that share one package name
	ForceRaw        int  // static: 1-based index of the raw type case to use for the first static type (0 = random)
	Wire            bool // google/wire configuration family (single-result providers, everything needed, no Async)
	Fanout          int  // max parameters of a function provider (default 3)
	ReuseP          int  // percent chance that a parameter reuses an already supplied type (diamonds)
}

type gen struct {
	r        *rand.Rand
	o        GenOpts
	s        *Spec
	budget   int
	done     []int // type ids supplied by completed subtrees (reusable)
	argTypes []int
	names    map[string]bool
	hasCtx   int
	nameSeq  int
	setSeq   int
	forced   bool
	extNames map[string]bool
	usedRaw  map[string]bool // raw type expressions already in the spec (one Go type = one type of the model)
}

var benignNames = []string{"Config", "Database", "Cache", "Logger", "UserRepo", "OrderRepo", "Mailer", "Queue", "Metrics", "Tracer",
	"Session", "AuthService", "Billing", "Catalog", "Search", "Indexer", "Clock", "Router", "Server", "Client", "Storage", "Bucket",
	"Notifier", "Scheduler", "Worker", "Pool", "Limiter", "Gateway", "Resolver", "Registry", "Token", "Secret", "Policy", "Tenant", "Shard",
	"HTTPClient", "DBConn", "APIKey", "URLBuilder", "IDGen"}

// names that stress the variable allocator (lower-camel base collides with
// generated or hard-coded identifiers, suffixed forms, keywords, predeclared)
var hostileNames = []string{"Foo", "Foo0", "Foo1", "FooCh", "FooCh0", "Err", "Err0", "Err1", "Eg", "Ctx", "Ctx0", "Ch", "Zero", "Errgroup", "Context",
	"Type", "String", "Close", "Make", "Nil", "Len", "New", "Kessoku", "Val", "Val0", "Num", "Str", "Flag", "Ptr", "Func", "Map", "Chan", "Range",
	"Select", "Go", "Var", "Int", "Error", "True", "Iota", "Any", "Append", "Cap", "Panic", "Recover", "Default", "Import", "Package", "Return",
	"Result0", "Arg0", "Probe", "Ext", "Fmt", "Sync"}

func (g *gen) reuseP() int {
	if g.o.ReuseP > 0 {
		return g.o.ReuseP
	}
	return 26
}

func (g *gen) typeName() string {
	pool := benignNames
	if g.o.Hostile && g.r.Intn(100) < 60 {
		pool = hostileNames
	}
	for tries := 0; tries < 50; tries++ {
		n := pool[g.r.Intn(len(pool))]
		if !g.names[n] {
			g.names[n] = true
			return n
		}
	}
	for {
		g.nameSeq++
		n := fmt.Sprintf("%s%d", benignNames[g.r.Intn(len(benignNames))], g.nameSeq)
		if g.o.Hostile && g.r.Intn(2) == 0 {
			n = fmt.Sprintf("%s%d", hostileNames[g.r.Intn(len(hostileNames))], g.nameSeq%3)
		}
		if !g.names[n] {
			g.names[n] = true
			return n
		}
	}
}

// typeNameIn picks a type name for package pkg; in sibling packages it
// sometimes reuses the name of a type that lives in another package
// (dbcfg.Config vs cachecfg.Config).
func (g *gen) typeNameIn(pkg string) string {
	if pkg != "" && g.r.Intn(100) < 35 {
		var cands []string
		for _, t := range g.s.Types {
			if t.Name != "" && t.Pkg != pkg && (t.Kind == KStruct || t.Kind == KNamedInt || t.Kind == KNamedStr) && !g.extNames[pkg+"|"+t.Name] && !g.extNameTaken(pkg, t.Name) {
				cands = append(cands, t.Name)
			}
		}
		if len(cands) > 0 {
			n := cands[g.r.Intn(len(cands))]
			g.extNames[pkg+"|"+n] = true
			return n
		}
	}
	n := g.typeName()
	if pkg != "" {
		g.extNames[pkg+"|"+n] = true
	}
	return n
}

// extNameTaken: is name already declared in the package with directory pkg
// (or in another directory of the same package name, which would be fine, but
// keep names distinct per package name to keep reflect names unambiguous)?
func (g *gen) extNameTaken(pkg, name string) bool {
	for _, t := range g.s.Types {
		if t.Name == name && t.Pkg == pkg {
			return true
		}
	}
	return false
}

func (g *gen) addType(t *Type) int {
	t.ID = len(g.s.Types)
	g.s.Types = append(g.s.Types, t)
	return t.ID
}

// freshType creates a fresh identity-carrying type of a random kind and
// returns its id.
func (g *gen) freshType(allowIface bool) int {
	if g.o.Static && (g.r.Intn(100) < 40 || (g.o.ForceRaw > 0 && !g.forced)) {
		return g.rawType()
	}
	k := g.r.Intn(100)
	pkg := ""
	if g.o.Ext && (g.r.Intn(100) < 20 || (g.o.ManyExt && g.r.Intn(100) < 50)) {
		pkg = g.s.ExtPkgs[g.r.Intn(len(g.s.ExtPkgs))].Dir
	}
	switch {
	case k < 30: // pointer to struct
		b := g.addType(&Type{Kind: KStruct, Name: g.typeNameIn(pkg), Pkg: pkg, Base: -1})
		return g.addType(&Type{Kind: KPtr, Base: b})
	case k < 48:
		return g.addType(&Type{Kind: KStruct, Name: g.typeNameIn(pkg), Pkg: pkg, Base: -1})
	case k < 58:
		return g.addType(&Type{Kind: KNamedStr, Name: g.typeNameIn(pkg), Pkg: pkg, Base: -1})
	case k < 68:
		return g.addType(&Type{Kind: KNamedInt, Name: g.typeNameIn(pkg), Pkg: pkg, Base: -1})
	case k < 76:
		b := g.addType(&Type{Kind: KStruct, Name: g.typeNameIn(pkg), Pkg: pkg, Base: -1})
		return g.addType(&Type{Kind: KSlice, Base: b})
	case k < 82:
		b := g.addType(&Type{Kind: KStruct, Name: g.typeNameIn(pkg), Pkg: pkg, Base: -1})
		return g.addType(&Type{Kind: KMap, Base: b})
	case k < 88:
		b := g.addType(&Type{Kind: KStruct, Name: g.typeNameIn(pkg), Pkg: pkg, Base: -1})
		return g.addType(&Type{Kind: KFunc, Base: b})
	case k < 92:
		b := g.addType(&Type{Kind: KStruct, Name: g.typeNameIn(pkg), Pkg: pkg, Base: -1})
		return g.addType(&Type{Kind: KArray, Base: b})
	case k < 96:
		return g.addType(&Type{Kind: KAnon, Name: "H" + g.typeName(), Base: -1})
	default:
		if allowIface {
			return g.addType(&Type{Kind: KIface, Name: g.typeName(), Pkg: "", Base: -1})
		}
		return g.addType(&Type{Kind: KStruct, Name: g.typeNameIn(pkg), Pkg: pkg, Base: -1})
	}
}

func (g *gen) basicType() int {
	names := []string{"string", "int", "int64", "uint64"}
	n := names[g.r.Intn(len(names))]
	for _, t := range g.s.Types {
		if t.Kind == KBasic && t.Name == n {
			return -1 // each basic type at most once per spec (would be a duplicate supplier)
		}
	}
	return g.addType(&Type{Kind: KBasic, Name: n, Base: -1})
}

func (g *gen) ctxType() int {
	for _, t := range g.s.Types {
		if t.Kind == KCtx {
			return t.ID
		}
	}
	return g.addType(&Type{Kind: KCtx, Base: -1})
}

func (g *gen) addProv(p *Prov) int {
	p.ID = len(g.s.Provs)
	g.s.Provs = append(g.s.Provs, p)
	return p.ID
}

// need returns a type id that will be available to a consumer.
func (g *gen) need(depth int) int {
	k := g.r.Intn(100)
	switch {
	case k < g.reuseP() && len(g.done) > 0:
		return g.done[g.r.Intn(len(g.done))]
	case k < 26:
		if g.budget > 0 {
			p := g.newProv(depth+1, -1)
			rs := g.s.Provs[p].Results
			return rs[g.r.Intn(len(rs))]
		}
		return g.valueProv()
	case k < 36:
		// injector argument: fresh or existing unsupplied type
		if len(g.argTypes) > 0 && g.r.Intn(3) == 0 {
			return g.argTypes[g.r.Intn(len(g.argTypes))]
		}
		var t int
		if g.r.Intn(4) == 0 {
			t = g.basicType()
			if t < 0 {
				t = g.freshType(true)
			}
		} else {
			t = g.freshType(true)
		}
		g.argTypes = append(g.argTypes, t)
		return t
	case k < 36+int(g.o.CtxP*100):
		return g.ctxType()
	case k < 50:
		return g.valueProv()
	case k < 60 && g.budget > 0:
		return g.structField(depth)
	case k < 70 && g.budget > 0:
		if g.o.Static && len(g.s.ExtPkgs) > 0 && g.budget > 1 && g.r.Intn(3) == 0 {
			return g.foreignChain(depth)
		}
		return g.boundIface(depth)
	case k < 80 && g.o.Wire && g.budget > 0 && depth < 4:
		return g.assemble(depth)
	case k < 85 && g.o.Wire:
		return g.ifaceValue()
	default:
		if g.budget <= 0 {
			if len(g.done) > 0 {
				return g.done[g.r.Intn(len(g.done))]
			}
			return g.valueProv()
		}
		p := g.newProv(depth+1, -1)
		rs := g.s.Provs[p].Results
		return rs[g.r.Intn(len(rs))]
	}
}

func fnvH(s string) uint64 {
	if len(s) == 16 {
		if v, err := strconv.ParseUint(s, 16, 64); err == nil {
			return v
		}
	}
	h := fnv.New64a()
	h.Write([]byte(s))
	v := h.Sum64()
	if v == 0 {
		v = 1
	}
	return v
}

// StrH is the identity of a string value (must match probe.StrH).
func StrH(s string) uint64 { return fnvH(s) }

func (g *gen) valueProv() int {
	k := g.r.Intn(5)
	var t int
	p := &Prov{Kind: PValue}
	switch k {
	case 0:
		t = g.addType(&Type{Kind: KNamedInt, Name: g.typeName(), Base: -1})
		v := uint64(g.r.Intn(100000) + 1)
		p.ValExpr = fmt.Sprintf("%s(%d)", g.s.Types[t].Name, v)
		p.ValH = v
	case 1:
		t = g.addType(&Type{Kind: KNamedStr, Name: g.typeName(), Base: -1})
		lit := fmt.Sprintf("v-%d", g.r.Intn(1000))
		p.ValExpr = fmt.Sprintf("%s(%q)", g.s.Types[t].Name, lit)
		p.ValH = fnvH(lit)
	case 2:
		t = g.addType(&Type{Kind: KStruct, Name: g.typeName(), Base: -1})
		v := uint64(g.r.Intn(100000) + 1)
		p.ValExpr = fmt.Sprintf("mk%d(%d)", t, v)
		if g.o.Wire {
			p.ValExpr = fmt.Sprintf("%s{v: probe.V{H: %d}}", g.s.Types[t].Name, v)
		}
		p.ValH = v
	case 3:
		// package-level constant of a named type
		t = g.addType(&Type{Kind: KNamedInt, Name: g.typeName(), Base: -1})
		v := uint64(g.r.Intn(100000) + 1)
		cn := "Default" + g.s.Types[t].Name
		g.s.ExtraDecl += fmt.Sprintf("const %s %s = %d\n", cn, g.s.Types[t].Name, v)
		p.ValExpr = cn
		p.ValH = v
	default:
		t = g.basicType()
		if t < 0 {
			return g.valueProvNamed()
		}
		switch g.s.Types[t].Name {
		case "string":
			lit := fmt.Sprintf("lit-%d", g.r.Intn(1000))
			p.ValExpr = strconv.Quote(lit)
			p.ValH = fnvH(lit)
		case "int":
			v := g.r.Intn(100000) + 1
			p.ValExpr = strconv.Itoa(v)
			p.ValH = uint64(v)
		default:
			v := g.r.Intn(100000) + 1
			p.ValExpr = fmt.Sprintf("%s(%d)", g.s.Types[t].Name, v)
			p.ValH = uint64(v)
		}
	}
	p.Results = []int{t}
	g.addProv(p)
	g.done = append(g.done, t)
	return t
}

func (g *gen) valueProvNamed() int {
	t := g.addType(&Type{Kind: KNamedInt, Name: g.typeName(), Base: -1})
	v := uint64(g.r.Intn(100000) + 1)
	p := &Prov{Kind: PValue, ValExpr: fmt.Sprintf("%s(%d)", g.s.Types[t].Name, v), ValH: v, Results: []int{t}}
	g.addProv(p)
	g.done = append(g.done, t)
	return t
}

// structField creates a provider of a struct (value or pointer) with fresh
// exported fields, a Struct[...] expansion, and returns one field's type.
func (g *gen) structField(depth int) int {
	if g.o.Ext && g.r.Intn(4) == 0 {
		return g.extStructField(depth)
	}
	st := g.addType(&Type{Kind: KStruct, Name: g.typeName(), Base: -1})
	nf := 1 + g.r.Intn(3)
	for i := 0; i < nf; i++ {
		var ft int
		if g.r.Intn(4) == 0 {
			ft = g.basicType()
		} else {
			ft = -1
		}
		if ft < 0 {
			ft = g.freshType(false)
		}
		emb := false
		ftT := g.s.Types[ft]
		if (ftT.Kind == KStruct || ftT.Kind == KNamedInt || ftT.Kind == KNamedStr) && ftT.Pkg == "" && g.r.Intn(5) == 0 {
			emb = true
		}
		name := fmt.Sprintf("F%d%s", i, strings.Title(g.s.Types[st].Name))
		if emb {
			name = ftT.Name
		}
		fld := Field{Name: name, T: ft, Embedded: emb}
		if !emb && g.r.Intn(4) == 0 {
			// declared through an alias of its type: the same type under another spelling
			fld.Alias = g.typeName() + "Alias"
			g.s.ExtraDecl += fmt.Sprintf("type %s = %s\n", fld.Alias, g.s.Expr(ft, ""))
			g.feature("struct-field-declared-through-alias")
		}
		g.s.Types[st].Fields = append(g.s.Types[st].Fields, fld)
	}
	use := st
	if g.r.Intn(2) == 0 || (g.o.Wire && g.r.Intn(5) != 0) {
		use = g.addType(&Type{Kind: KPtr, Base: st})
	}
	g.newProv(depth+1, use)
	if !g.o.Wire && use == st && g.budget > 0 && g.r.Intn(4) == 0 {
		// the pointer form of the expanded value struct has a provider of its own
		// (it may or may not be needed); Struct[S] still expands the supplier of S
		pt := g.addType(&Type{Kind: KPtr, Base: st})
		g.newProv(depth+1, pt)
		g.feature("struct-expansion-with-separate-pointer-provider")
	}
	sp := &Prov{Kind: PStruct, Results: []int{use}}
	if g.r.Intn(6) == 0 && !g.o.Wire {
		sp.Async = true // Async(Struct[T]()) has no effect on semantics
	}
	if g.r.Intn(5) == 0 && !g.o.Wire {
		// the expansion names its struct (or pointer) through an alias
		sp.TypeAlias = g.typeName() + "Ref"
		g.s.ExtraDecl += fmt.Sprintf("type %s = %s\n", sp.TypeAlias, g.s.Expr(use, ""))
		g.feature("struct-expansion-named-through-alias")
	}
	g.addProv(sp)
	var fts []int
	for _, f := range g.s.Types[st].Fields {
		fts = append(fts, f.T)
		g.done = append(g.done, f.T)
	}
	return fts[g.r.Intn(len(fts))]
}

// assemble (wire only) creates wire.Struct(new(S), ...): S is built from its
// fields, which are themselves needed types.
// extAssemble (wire only): wire.Struct(new(ext.T), "*" | fields) on a struct
// of a sibling package that has an unexported field tagged wire:"-" in front.
func (g *gen) extAssemble(depth int) int {
	e := g.s.ExtPkgs[g.r.Intn(len(g.s.ExtPkgs))]
	st := g.addType(&Type{Kind: KStruct, Name: g.typeNameIn(e.Dir), Pkg: e.Dir, Base: -1, Pure: true})
	p := &Prov{Kind: PAssemble}
	g.addProv(p)
	g.budget--
	hid := g.addType(&Type{Kind: KNamedInt, Name: g.typeNameIn(e.Dir), Pkg: e.Dir, Base: -1})
	name := g.s.Types[st].Name
	if g.r.Intn(2) == 0 {
		g.s.Types[st].Fields = append(g.s.Types[st].Fields, Field{Name: "internal" + name, T: hid, Tag: `wire:"-"`})
	}
	nf := 1 + g.r.Intn(3)
	for i := 0; i < nf; i++ {
		ft := g.addType(&Type{Kind: KNamedInt, Name: g.typeNameIn(e.Dir), Pkg: e.Dir, Base: -1})
		v := uint64(g.r.Intn(100000) + 1)
		g.addProv(&Prov{Kind: PValue, ValExpr: fmt.Sprintf("%s(%d)", g.s.Expr(ft, ""), v), ValH: v, Results: []int{ft}})
		fname := fmt.Sprintf("E%d%s", i, name)
		g.s.Types[st].Fields = append(g.s.Types[st].Fields, Field{Name: fname, T: ft})
		p.Params = append(p.Params, ft)
		p.AsmFields = append(p.AsmFields, fname)
		if i == 0 && g.r.Intn(3) == 0 {
			// another excluded unexported field in the middle
			g.s.Types[st].Fields = append(g.s.Types[st].Fields, Field{Name: "middle" + name, T: hid, Tag: `wire:"-"`})
		}
	}
	if g.r.Intn(3) != 0 {
		p.AsmFields = []string{"*"}
	}
	use := g.addType(&Type{Kind: KPtr, Base: st})
	p.Results = []int{use}
	g.feature("wire-struct-of-sibling-package-type")
	g.done = append(g.done, use)
	return use
}

func (g *gen) assemble(depth int) int {
	if len(g.s.ExtPkgs) > 0 && g.r.Intn(3) == 0 {
		return g.extAssemble(depth)
	}
	st := g.addType(&Type{Kind: KStruct, Name: g.typeName(), Base: -1, Pure: true})
	p := &Prov{Kind: PAssemble}
	g.addProv(p)
	g.budget--
	nf := 1 + g.r.Intn(3)
	seen := map[int]bool{}
	for i := 0; i < nf; i++ {
		ft := g.need(depth + 1)
		if seen[ft] || g.s.Types[ft].Kind == KCtx {
			continue
		}
		seen[ft] = true
		name := fmt.Sprintf("A%d%s", i, strings.Title(g.s.Types[st].Name))
		g.s.Types[st].Fields = append(g.s.Types[st].Fields, Field{Name: name, T: ft})
	}
	if len(g.s.Types[st].Fields) == 0 {
		ft := g.valueProvNamed()
		g.s.Types[st].Fields = append(g.s.Types[st].Fields, Field{Name: "A0" + g.s.Types[st].Name, T: ft})
	}
	listed := append([]Field{}, g.s.Types[st].Fields...)
	for _, f := range listed {
		p.Params = append(p.Params, f.T)
		p.AsmFields = append(p.AsmFields, f.Name)
	}
	switch g.r.Intn(4) {
	case 0:
		p.AsmFields = []string{"*"}
	case 1:
		// "*" with a field excluded by the wire:"-" tag
		xt := g.addType(&Type{Kind: KNamedInt, Name: g.typeName(), Base: -1})
		g.s.Types[st].Fields = append(g.s.Types[st].Fields, Field{Name: "Skipped" + g.s.Types[st].Name, T: xt, Tag: `wire:"-"`})
		p.AsmFields = []string{"*"}
		g.feature("wire-struct-star-with-excluded-field")
	case 2:
		// explicit list, one more field that is not listed (stays zero)
		xt := g.addType(&Type{Kind: KNamedInt, Name: g.typeName(), Base: -1})
		g.s.Types[st].Fields = append(g.s.Types[st].Fields, Field{Name: "Unlisted" + g.s.Types[st].Name, T: xt})
	}
	use := st
	if g.r.Intn(5) != 0 {
		use = g.addType(&Type{Kind: KPtr, Base: st})
	}
	p.Results = []int{use}
	g.done = append(g.done, use)
	return use
}

// ifaceValue (wire only) creates wire.InterfaceValue(new(I), S{...}).
func (g *gen) ifaceValue() int {
	it := g.addType(&Type{Kind: KIface, Name: g.typeName(), Base: -1})
	st := g.addType(&Type{Kind: KStruct, Name: g.typeName(), Base: -1, Impl: []int{it}})
	v := uint64(g.r.Intn(100000) + 1)
	p := &Prov{Kind: PValue, ValExpr: fmt.Sprintf("%s{v: probe.V{H: %d}}", g.s.Types[st].Name, v), ValH: v, Results: []int{st}, Binds: []int{it}, IfaceVal: true}
	g.addProv(p)
	g.done = append(g.done, it)
	return it
}

// extStructField: like structField, but the struct and its field types live
// in a sibling package (Struct[*ext.Config]() / wire.FieldsOf(new(*ext.Config), ...)).
func (g *gen) extStructField(depth int) int {
	e := g.s.ExtPkgs[g.r.Intn(len(g.s.ExtPkgs))]
	st := g.addType(&Type{Kind: KStruct, Name: g.typeNameIn(e.Dir), Pkg: e.Dir, Base: -1})
	nf := 1 + g.r.Intn(3)
	for i := 0; i < nf; i++ {
		k := []Kind{KNamedInt, KNamedStr, KStruct}[g.r.Intn(3)]
		ft := g.addType(&Type{Kind: k, Name: g.typeNameIn(e.Dir), Pkg: e.Dir, Base: -1})
		g.s.Types[st].Fields = append(g.s.Types[st].Fields, Field{Name: fmt.Sprintf("X%d%s", i, g.s.Types[st].Name), T: ft})
	}
	use := g.addType(&Type{Kind: KPtr, Base: st})
	if g.r.Intn(5) == 0 {
		use = st
	}
	g.newProv(depth+1, use)
	g.addProv(&Prov{Kind: PStruct, Results: []int{use}})
	g.feature("struct-expansion-of-sibling-package-type")
	var fts []int
	for _, f := range g.s.Types[st].Fields {
		fts = append(fts, f.T)
		g.done = append(g.done, f.T)
	}
	return fts[g.r.Intn(len(fts))]
}

// boundIface creates a provider of a struct implementing a fresh interface,
// wrapped in Bind, and returns the interface type.
func (g *gen) boundIface(depth int) int {
	it := g.addType(&Type{Kind: KIface, Name: g.typeName(), Base: -1})
	st := g.addType(&Type{Kind: KStruct, Name: g.typeName(), Base: -1, Impl: []int{it}})
	use := st
	if g.r.Intn(2) == 0 {
		g.s.Types[st].PtrRecv = g.r.Intn(2) == 0
		use = g.addType(&Type{Kind: KPtr, Base: st})
	}
	p := g.newProv(depth+1, use)
	g.s.Provs[p].Binds = []int{it}
	g.s.Provs[p].BindOut = g.r.Intn(2) == 0
	if g.o.Wire {
		// constructor naming: conventional New<Type>; or another name with an
		// unrelated function called New<Type> lying around; or another name only
		conv := "New" + g.s.Types[st].Name
		switch g.r.Intn(3) {
		case 0:
			g.s.Provs[p].Fn = conv
			g.feature("bind-conventional-constructor")
		case 1:
			g.s.Provs[p].Fn = fmt.Sprintf("Make%sP%d", g.s.Types[st].Name, p)
			g.addProv(&Prov{Kind: PFunc, Fn: conv, Results: []int{use}, Decoy: true})
			g.feature("bind-unconventional-constructor-with-decoy")
		default:
			g.feature("bind-unconventional-constructor")
		}
	}
	if !g.o.Wire && g.r.Intn(5) == 0 {
		// one provider supplying the bound interface twice: the first result wins
		// (pinned by the repository's own TestNewGraphMultiTypeProvider)
		pr := g.s.Provs[p]
		if g.r.Intn(2) == 0 {
			// (I, *S): the interface itself is result 0, the implementation result 1
			pr.Results = []int{it, use}
			g.feature("bind-on-provider-returning-interface-and-implementation")
		} else {
			// (*S1, *S2): both results implement the interface
			st2 := g.addType(&Type{Kind: KStruct, Name: g.typeName(), Base: -1, Impl: []int{it}})
			use2 := g.addType(&Type{Kind: KPtr, Base: st2})
			pr.Results = []int{use, use2}
			g.done = append(g.done, use2)
			g.feature("bind-on-provider-with-two-implementations")
		}
	}
	if g.r.Intn(5) == 0 {
		// stacked bind: a second interface on the same implementation
		it2 := g.addType(&Type{Kind: KIface, Name: g.typeName(), Base: -1})
		g.s.Types[st].Impl = append(g.s.Types[st].Impl, it2)
		g.s.Provs[p].Binds = append(g.s.Provs[p].Binds, it2)
		g.done = append(g.done, it2)
	}
	g.done = append(g.done, it)
	return it
}

// newProv creates a function provider; if result >= 0 its first result is
// that type. Returns the provider id.
func (g *gen) newProv(depth int, result int) int {
	g.budget--
	p := &Prov{Kind: PFunc}
	id := g.addProv(p) // reserve id (declaration order = creation order)
	maxp := 3
	if g.o.Fanout > 0 {
		maxp = g.o.Fanout
	}
	if depth >= 5 || g.budget <= 0 {
		maxp = 0
	} else if g.o.ManyRoots {
		maxp = 1
	}
	np := 0
	if maxp > 0 {
		np = g.r.Intn(maxp + 1)
		if depth <= 1 && np == 0 {
			np = 1 + g.r.Intn(maxp)
		}
	}
	if g.o.ManyRoots && depth <= 1 {
		np = 2 + g.r.Intn(5)
	}
	var params []int
	for i := 0; i < np; i++ {
		params = append(params, g.need(depth))
	}
	if len(params) > 0 && g.r.Intn(10) == 0 && !g.o.Wire {
		params = append(params, params[g.r.Intn(len(params))]) // duplicate parameter type
	}
	if g.o.Wire {
		// wire rejects providers with two parameters of one type
		seenT := map[int]bool{}
		var uniq []int
		for _, t := range params {
			if !seenT[t] {
				seenT[t] = true
				uniq = append(uniq, t)
			}
		}
		params = uniq
	}
	if g.hasCtx == 0 && g.r.Float64() < g.o.CtxP {
		pos := g.r.Intn(len(params) + 1)
		ct := g.ctxType()
		params = append(params[:pos], append([]int{ct}, params[pos:]...)...)
	}
	// at most one context parameter per provider
	seenCtx := false
	var pp []int
	for _, t := range params {
		if g.s.Types[t].Kind == KCtx {
			if seenCtx {
				continue
			}
			seenCtx = true
		}
		pp = append(pp, t)
	}
	p.Params = pp
	if result >= 0 {
		p.Results = []int{result}
	} else {
		p.Results = []int{g.freshType(false)}
	}
	if g.r.Intn(6) == 0 && !g.o.Wire {
		p.Results = append(p.Results, g.freshType(false))
	}
	p.Fn = fmt.Sprintf("New%sP%d", typeBaseName(g.s, p.Results[0]), id)
	if g.o.Ext && len(p.Params) == 0 {
		if d := g.allExt(p.Results); d != "" {
			p.Pkg = d
		}
	}
	p.Async = g.r.Float64() < g.o.AsyncP
	if g.o.ForceAsyncRoots && len(p.Params) == 0 {
		p.Async = true
	}
	p.Err = g.r.Float64() < g.o.ErrP
	p.Lit = g.r.Intn(12) == 0
	if g.o.Wire {
		p.Lit, p.Async = false, false
	}
	if !g.o.Wire && len(p.Params) > 0 && g.r.Intn(8) == 0 {
		last := g.s.Types[p.Params[len(p.Params)-1]]
		if last.Kind == KSlice || (last.Kind == KRaw && strings.HasPrefix(last.Raw, "[]")) {
			p.Variadic = true
			g.feature("variadic-provider")
		}
	}
	for _, t := range p.Results {
		g.done = append(g.done, t)
	}
	return id
}

// allExt returns the sibling package all result types live in ("" if none or mixed).
func (g *gen) allExt(ts []int) string {
	dir := ""
	for _, t := range ts {
		tt := g.s.Types[t]
		if tt.Base >= 0 {
			tt = g.s.Types[tt.Base]
		}
		if tt.Pkg == "" || tt.Kind == KRaw || (dir != "" && tt.Pkg != dir) {
			return ""
		}
		dir = tt.Pkg
	}
	return dir
}

func typeBaseName(s *Spec, t int) string {
	tt := s.Types[t]
	if tt.Base >= 0 {
		return s.Types[tt.Base].Name
	}
	if tt.Kind == KBasic {
		return strings.Title(tt.Name)
	}
	if tt.Kind == KCtx {
		return "Ctx"
	}
	return tt.Name
}

// Generate draws one declaration package.
func Generate(seed int64, name string, o GenOpts) *Spec {
	r := rand.New(rand.NewSource(seed))
	s := &Spec{Name: name, PkgName: name, Seed: seed, Dynamic: true}
	g := &gen{r: r, o: o, s: s, budget: o.MaxProvs, names: map[string]bool{}, extNames: map[string]bool{}}
	if o.Ext {
		e := ExtPkg{Dir: "ext", Name: "ext"}
		switch r.Intn(3) {
		case 1:
			e.Alias = "xt"
		}
		s.ExtPkgs = []ExtPkg{e}
		if r.Intn(2) == 0 || o.ManyExt {
			// two more sibling packages that share one package name
			nm := []string{"store", "config", "client"}[r.Intn(3)]
			s.ExtPkgs = append(s.ExtPkgs, ExtPkg{Dir: "users/" + nm, Name: nm}, ExtPkg{Dir: "orders/" + nm, Name: nm, Alias: "orders" + nm})
			if r.Intn(2) == 0 || o.ManyExt {
				s.ExtPkgs = append(s.ExtPkgs, ExtPkg{Dir: "items/" + nm, Name: nm, Alias: "items" + nm})
			}
		}
	}
	if o.Static {
		s.Dynamic = false
	}
	root := g.newProv(0, -1)
	ret := s.Provs[root].Results[0]
	// a few unneeded providers (must never run)
	for i := 0; i < r.Intn(3) && !o.Wire; i++ {
		if g.budget <= 0 {
			break
		}
		g.budget = 1
		g.newProv(3, -1)
	}
	// build item list: every provider once, shuffled, grouped into sets
	var items []Item
	for _, p := range s.Provs {
		if p.Decoy {
			continue
		}
		items = append(items, Item{Prov: p.ID})
	}
	r.Shuffle(len(items), func(i, j int) { items[i], items[j] = items[j], items[i] })
	nf := o.Files
	if nf < 1 {
		nf = 1
	}
	for i := 0; i < nf; i++ {
		if i == 0 {
			s.Files = append(s.Files, "kessoku.go")
		} else {
			s.Files = append(s.Files, fmt.Sprintf("wiring%d.go", i))
		}
	}
	if !o.NoSets {
		items = g.groupSets(items, 0)
	}
	s.Injectors = append(s.Injectors, &Injector{Name: "Initialize" + typeBaseName(s, ret), Ret: ret, Items: items, File: 0})
	// further injectors: other requested types over the same items
	ref := s.Interpret(s.Injectors[0])
	var cands []int
	for t := range ref.Suppliers {
		if t != ret && s.Types[t].Kind != KCtx {
			cands = append(cands, t)
		}
	}
	for _, t := range ref.Args {
		if s.Types[t].Kind != KCtx && !o.Wire {
			cands = append(cands, t) // requested type with no supplier: identity injector
		}
	}
	sortInts(cands)
	if o.Hostile {
		g.hostileDecls()
	}
	if !o.Static && !o.Wire && r.Intn(5) == 0 && !strings.Contains(s.ExtraDecl+s.GeneratedDecl, " ctx ") && !strings.Contains(s.ExtraDecl+s.GeneratedDecl, " ctx(") && !g.names["ctx"] {
		// the user package owns a package-level ctx of type context.Context:
		// generated code that spells "ctx" literally would still compile
		s.ExtraDecl += "var ctx = context.Background()\n"
		g.feature("pkglevel:ctx-of-type-context")
	}
	for j := 1; j < o.MultiInj && len(cands) > 0; j++ {
		t := cands[r.Intn(len(cands))]
		its := items
		if r.Intn(2) == 0 && !o.Wire {
			its = g.subsetItems(items)
		}
		nm := fmt.Sprintf("Build%s%d", typeBaseName(s, t), j)
		s.Injectors = append(s.Injectors, &Injector{Name: nm, Ret: t, Items: its, File: r.Intn(nf)})
	}
	return s
}

func sortInts(a []int) {
	for i := 1; i < len(a); i++ {
		for j := i; j > 0 && a[j] < a[j-1]; j-- {
			a[j], a[j-1] = a[j-1], a[j]
		}
	}
}

// groupSets randomly groups items into named / inline / nested sets.
func (g *gen) groupSets(items []Item, depth int) []Item {
	if len(items) < 2 || depth > 2 {
		return items
	}
	var out []Item
	i := 0
	for i < len(items) {
		k := g.r.Intn(100)
		n := 1 + g.r.Intn(3)
		if i+n > len(items) {
			n = len(items) - i
		}
		chunk := append([]Item{}, items[i:i+n]...)
		switch {
		case k < 25 && n >= 1:
			g.setSeq++
			name := fmt.Sprintf("Set%d%s", g.setSeq, []string{"", "Providers", "Deps"}[g.r.Intn(3)])
			sd := &SetDef{Name: name, Items: g.groupSets(chunk, depth+1), File: g.r.Intn(len(g.s.Files))}
			g.s.Sets = append(g.s.Sets, sd)
			out = append(out, Item{Prov: -1, Set: name})
		case k < 35:
			out = append(out, Item{Prov: -1, Inline: g.groupSets(chunk, depth+1)})
		default:
			out = append(out, chunk...)
		}
		i += n
	}
	return out
}

// subsetItems drops a few function providers (their outputs become
// injector arguments) while keeping Struct expansions consistent.
func (g *gen) subsetItems(items []Item) []Item {
	flat := g.s.Flatten(items)
	drop := map[int]bool{}
	for _, pid := range flat {
		if g.s.Provs[pid].Kind == PFunc && g.r.Intn(5) == 0 {
			drop[pid] = true
		}
	}
	// drop Struct providers whose struct is no longer supplied
	supplied := map[int]bool{}
	for _, pid := range flat {
		p := g.s.Provs[pid]
		if drop[pid] || p.Kind == PStruct {
			continue
		}
		for _, t := range p.Results {
			supplied[t] = true
		}
	}
	var out []Item
	for _, pid := range flat {
		p := g.s.Provs[pid]
		if drop[pid] {
			continue
		}
		if p.Kind == PStruct && !supplied[p.Results[0]] {
			continue
		}
		out = append(out, Item{Prov: pid})
	}
	return out
}

// ---------------------------------------------------------------- variants (C02)

// Clone deep-copies a spec.
func (s *Spec) Clone() *Spec {
	c := *s
	c.Types = nil
	for _, t := range s.Types {
		tt := *t
		tt.Fields = append([]Field{}, t.Fields...)
		tt.Impl = append([]int{}, t.Impl...)
		tt.RawNames = append([]string{}, t.RawNames...)
		c.Types = append(c.Types, &tt)
	}
	c.Provs = nil
	for _, p := range s.Provs {
		pp := *p
		pp.Params = append([]int{}, p.Params...)
		pp.Results = append([]int{}, p.Results...)
		pp.Binds = append([]int{}, p.Binds...)
		pp.ParamSpell = append([]string{}, p.ParamSpell...)
		pp.ResultSpell = append([]string{}, p.ResultSpell...)
		pp.AsmFields = append([]string{}, p.AsmFields...)
		c.Provs = append(c.Provs, &pp)
	}
	c.Sets = nil
	for _, sd := range s.Sets {
		x := *sd
		x.Items = cloneItems(sd.Items)
		c.Sets = append(c.Sets, &x)
	}
	c.Injectors = nil
	for _, in := range s.Injectors {
		x := *in
		x.Items = cloneItems(in.Items)
		c.Injectors = append(c.Injectors, &x)
	}
	c.Files = append([]string{}, s.Files...)
	c.Features = append([]string{}, s.Features...)
	c.ExtPkgs = append([]ExtPkg{}, s.ExtPkgs...)
	if s.ExtDecl != nil {
		c.ExtDecl = map[string]string{}
		for k, v := range s.ExtDecl {
			c.ExtDecl[k] = v
		}
	}
	return &c
}

func cloneItems(it []Item) []Item {
	var out []Item
	for _, x := range it {
		y := x
		if x.Inline != nil {
			y.Inline = cloneItems(x.Inline)
			if y.Inline == nil {
				y.Inline = []Item{}
			}
		}
		out = append(out, y)
	}
	return out
}

// Variant returns a semantically equivalent declaration: another Async
// subset, another Set grouping, another declaration order.
func (s *Spec) Variant(seed int64, name string, mode string) *Spec {
	r := rand.New(rand.NewSource(seed))
	c := s.Clone()
	c.Name, c.PkgName = name, name
	switch mode {
	case "sync":
		for _, p := range c.Provs {
			p.Async = false
		}
	case "allasync":
		for _, p := range c.Provs {
			if p.Kind == PFunc {
				p.Async = true
			}
		}
	case "oneasync":
		var fs []*Prov
		for _, p := range c.Provs {
			p.Async = false
			if p.Kind == PFunc {
				fs = append(fs, p)
			}
		}
		if len(fs) > 0 {
			fs[r.Intn(len(fs))].Async = true
		}
	case "randasync":
		for _, p := range c.Provs {
			if p.Kind == PFunc {
				p.Async = r.Intn(2) == 0
			}
		}
	}
	// regroup + reorder every injector
	g := &gen{r: r, s: c, names: map[string]bool{}, extNames: map[string]bool{}}
	c.Sets = nil
	for _, in := range c.Injectors {
		flat := s.Flatten(in.Items)
		var items []Item
		for _, pid := range flat {
			items = append(items, Item{Prov: pid})
		}
		r.Shuffle(len(items), func(i, j int) { items[i], items[j] = items[j], items[i] })
		if mode != "flat" {
			items = g.groupSets(items, 0)
		}
		in.Items = items
	}
	return c
}
