package spec

import (
	"fmt"
	"math/rand"
	"regexp"
	"sort"
	"strings"
)

// WireElems returns the wire.Build elements (Go expressions) needed for one
// injector: wire rejects unused providers, bindings, values and fields, so
// only what the reference need-analysis marks as needed is listed.
func (s *Spec) wireUnits(in *Injector) []string {
	ref := s.Interpret(in)
	neededType := map[int]bool{in.Ret: true}
	for _, pid := range ref.Needed {
		for _, t := range s.Provs[pid].Params {
			neededType[t] = true
		}
	}
	// struct types needed only as the source of a field read
	for _, fr := range ref.FieldReads {
		neededType[fr.Via] = true
	}
	var out []string
	fn := func(p *Prov) string {
		if p.Pkg != "" {
			return s.importName(p.Pkg) + "." + p.Fn
		}
		return p.Fn
	}
	for _, pid := range ref.Needed {
		p := s.Provs[pid]
		switch p.Kind {
		case PFunc:
			unit := fn(p)
			for _, b := range p.Binds {
				if neededType[b] {
					// a Bind must live in a set that also contains the provider of the
					// concrete type: keep them in one unit ("\x00" separates the elements)
					unit += "\x00" + fmt.Sprintf("wire.Bind(new(%s), new(%s))", s.Expr(b, ""), s.Expr(p.Results[0], ""))
				}
			}
			out = append(out, unit)
		case PValue:
			if p.IfaceVal {
				out = append(out, fmt.Sprintf("wire.InterfaceValue(new(%s), %s)", s.Expr(p.Binds[0], ""), p.ValExpr))
			} else {
				out = append(out, fmt.Sprintf("wire.Value(%s)", p.ValExpr))
			}
		case PAssemble:
			fs := make([]string, len(p.AsmFields))
			for i, f := range p.AsmFields {
				fs[i] = fmt.Sprintf("%q", f)
			}
			// wire does not care about the order of an explicit field list:
			// a third in declaration order, a third reversed, a third rotated
			if len(fs) > 1 && fs[0] != `"*"` {
				// position among the spec's multi-field assemblies: the first
				// one is reversed, the second rotated, the third as declared, ...
				k := 0
				for _, q := range s.Provs {
					if q.ID < p.ID && q.Kind == PAssemble && len(q.AsmFields) > 1 {
						k++
					}
				}
				switch (k + 1) % 3 {
				case 1:
					for a, b := 0, len(fs)-1; a < b; a, b = a+1, b-1 {
						fs[a], fs[b] = fs[b], fs[a]
					}
				case 2:
					fs = append(fs[1:], fs[0])
				}
			}
			// wire.Struct(new(S), ...) provides both S and *S
			sb := s.structBase(p.Results[0])
			out = append(out, fmt.Sprintf("wire.Struct(new(%s), %s)", s.Expr(sb, ""), strings.Join(fs, ", ")))
		}
	}
	// field reads grouped by struct
	byVia := map[int][]int{}
	for _, fr := range ref.FieldReads {
		byVia[fr.Via] = append(byVia[fr.Via], fr.Field)
	}
	var vias []int
	for v := range byVia {
		vias = append(vias, v)
	}
	sort.Ints(vias)
	for _, v := range vias {
		sb := s.structBase(v)
		fs := byVia[v]
		sort.Ints(fs)
		var names []string
		for _, fi := range fs {
			names = append(names, fmt.Sprintf("%q", s.Types[sb].Fields[fi].Name))
		}
		if v%2 == 1 {
			for a, b := 0, len(names)-1; a < b; a, b = a+1, b-1 {
				names[a], names[b] = names[b], names[a]
			}
		}
		out = append(out, fmt.Sprintf("wire.FieldsOf(new(%s), %s)", s.Expr(v, ""), strings.Join(names, ", ")))
	}
	return out
}

// ZeroExpr gives a zero-value expression of a type for the injector stub.
func (s *Spec) ZeroExpr(t int) string {
	tt := s.Types[t]
	switch tt.Kind {
	case KStruct, KArray, KAnon:
		return s.Expr(t, "") + "{}"
	case KNamedStr:
		return `""`
	case KNamedInt:
		return "0"
	case KBasic:
		if tt.Name == "string" {
			return `""`
		}
		return "0"
	}
	return "nil"
}

// EmitWire renders the package as a google/wire configuration: wire.go
// (tagged wireinject, the injector stubs) and wire_sets.go (wire.NewSet
// variables). The rest (types, providers, registration) is as in Emit.
func (s *Spec) EmitWire(r *rand.Rand, extraArg bool) map[string]string {
	files := s.Emit()
	for _, f := range s.Files {
		delete(files, f)
	}
	var inj, sets strings.Builder
	var setDecls [][2]string // name, wire.NewSet(...) expression
	setSeq := 0
	for ii, in := range s.Injectors {
		ref := s.Interpret(in)
		units := s.wireUnits(in)
		r.Shuffle(len(units), func(i, j int) { units[i], units[j] = units[j], units[i] })
		// most provider+Bind units stay together; sometimes the Bind moves to the
		// top level of wire.Build (legal: Build's set includes the referenced sets)
		var elems, topBinds []string
		for _, u := range units {
			parts := strings.Split(u, "\x00")
			if len(parts) > 1 && r.Intn(5) == 0 && !s.WireBindsStay {
				elems = append(elems, parts[0])
				topBinds = append(topBinds, parts[1:]...)
				continue
			}
			elems = append(elems, strings.Join(parts, ",\n\t"))
		}
		// group some elements into named / inline / nested sets
		var top []string
		i := 0
		for i < len(elems) {
			n := 1 + r.Intn(3)
			if i+n > len(elems) {
				n = len(elems) - i
			}
			chunk := elems[i : i+n]
			k := r.Intn(10)
			if s.WireAllInSets {
				k = 1
			}
			if s.WireNoSets {
				k = 9
			}
			switch {
			case k < 3:
				setSeq++
				name := fmt.Sprintf("%sSet%d", in.Name, setSeq)
				body := strings.Join(chunk, ",\n\t") + ","
				if k == 0 && n >= 2 {
					// nested: first element in its own inner set variable
					setSeq++
					inner := fmt.Sprintf("%sSet%d", in.Name, setSeq)
					setDecls = append(setDecls, [2]string{inner, "wire.NewSet(\n\t" + chunk[0] + ",\n)"})
					body = inner + ",\n\t" + strings.Join(chunk[1:], ",\n\t") + ","
				}
				setDecls = append(setDecls, [2]string{name, "wire.NewSet(\n\t" + body + "\n)"})
				top = append(top, name)
			case k < 4:
				top = append(top, "wire.NewSet(\n\t\t\t"+strings.Join(chunk, ",\n\t\t\t")+",\n\t\t)")
			default:
				top = append(top, chunk...)
			}
			i += n
		}
		top = append(top, topBinds...)
		var ps []string
		for ai, t := range ref.Args {
			ps = append(ps, fmt.Sprintf("a%d %s", ai, s.Expr(t, "")))
		}
		if extraArg && ii == 0 {
			ps = append(ps, "unusedArg UnusedInjectorArg")
		}
		res := s.Expr(in.Ret, "")
		ret := "return " + s.ZeroExpr(in.Ret)
		if ref.HasErr || ii%3 == 1 {
			// wire allows an error result even if no provider fails
			res = "(" + res + ", error)"
			ret += ", nil"
		}
		if r.Intn(3) == 0 {
			// the other documented injector form: no dummy return values
			fmt.Fprintf(&inj, "func %s(%s) %s {\n\tpanic(wire.Build(\n\t\t%s,\n\t))\n}\n\n", in.Name, strings.Join(ps, ", "), res, strings.Join(top, ",\n\t\t"))
			continue
		}
		fmt.Fprintf(&inj, "func %s(%s) %s {\n\twire.Build(\n\t\t%s,\n\t)\n\t%s\n}\n\n", in.Name, strings.Join(ps, ", "), res, strings.Join(top, ",\n\t\t"), ret)
	}
	// the set variables in one of three spellings (as for kessoku.Set): one
	// var each, one var block, multi-name specifications
	switch form := s.setDeclForm(); {
	case form == 1 && len(setDecls) > 0:
		sets.WriteString("var (\n")
		for _, d := range setDecls {
			fmt.Fprintf(&sets, "\t%s = %s\n", d[0], d[1])
		}
		sets.WriteString(")\n\n")
	case form == 2 && len(setDecls) > 1:
		for i := 0; i < len(setDecls); i += 2 {
			if i+1 == len(setDecls) {
				fmt.Fprintf(&sets, "var %s = %s\n\n", setDecls[i][0], setDecls[i][1])
				break
			}
			fmt.Fprintf(&sets, "var %s, %s = %s, %s\n\n", setDecls[i][0], setDecls[i+1][0], setDecls[i][1], setDecls[i+1][1])
		}
	default:
		for _, d := range setDecls {
			fmt.Fprintf(&sets, "var %s = %s\n\n", d[0], d[1])
		}
	}
	hdr := func(body string, tag bool) string {
		h := s.header(s.mainPkgName(), body+"\nvar _ = wire.NewSet\n", true)
		h = strings.Replace(h, "import (\n", "import (\n\t\"github.com/google/wire\"\n", 1)
		if tag {
			h = "//go:build wireinject\n\n" + h
		}
		return h
	}
	injBody, setsBody := inj.String(), sets.String()
	if s.WireLocalHelper {
		// a small provider living next to the injectors in the wire file
		// itself (wire copies such declarations into wire_gen.go)
		for _, p := range s.Provs {
			if p.Kind != PFunc || p.Pkg != "" || len(p.Params) != 0 || p.Variadic {
				continue
			}
			re := regexp.MustCompile(`\b` + regexp.QuoteMeta(p.Fn) + `\b`)
			if !re.MatchString(injBody) && !re.MatchString(setsBody) {
				continue
			}
			var rs []string
			for _, t := range p.Results {
				rs = append(rs, s.Expr(t, ""))
			}
			if p.Err {
				rs = append(rs, "error")
			}
			res := strings.Join(rs, ", ")
			if len(rs) > 1 {
				res = "(" + res + ")"
			}
			local := "provide" + p.Fn + "Locally"
			injBody = re.ReplaceAllString(injBody, local)
			setsBody = re.ReplaceAllString(setsBody, local)
			injBody += fmt.Sprintf("// %s lives in the wire file, next to the injectors.\nfunc %s() %s { return %s() }\n\n", local, local, res, p.Fn)
			break
		}
	}
	files["wire.go"] = hdr(injBody, true) + injBody
	if sets.Len() > 0 {
		body := setsBody
		h := hdr(body, false)
		// the second wire file may import the same sibling packages under other aliases
		for _, e := range s.ExtPkgs {
			if r.Intn(2) != 0 && !s.WireAltAliases {
				continue
			}
			cur := s.importName(e.Dir)
			alt := "w" + strings.ReplaceAll(e.Dir, "/", "")
			re := regexp.MustCompile(`(^|[^A-Za-z0-9_.])` + regexp.QuoteMeta(cur) + `\.`)
			if !re.MatchString(body) {
				continue
			}
			body = re.ReplaceAllString(body, "${1}"+alt+".")
			path := fmt.Sprintf("%q", s.progPath()+"/"+e.Dir)
			h = strings.Replace(h, s.extImport(e), "\t"+alt+" "+path+"\n", 1)
		}
		files["wire_sets.go"] = h + body
	}
	if extraArg {
		files["types.go"] += "\ntype UnusedInjectorArg struct{ n int }\n"
	}
	return files
}

// WireElems lists the wire.Build elements of an injector (flat, for descriptions).
func (s *Spec) WireElems(in *Injector) []string {
	var out []string
	for _, u := range s.wireUnits(in) {
		out = append(out, strings.Split(u, "\x00")...)
	}
	return out
}
