package spec

import (
	"fmt"
	"regexp"
	"sort"
	"strings"
)

// ModulePath is the module path of the scratch module programs live in.
const ModulePath = "vk"

// Emit renders the user package of a spec: file name (relative to the
// program directory) -> content. The generated *_band.go files are produced
// by the real kessoku CLI afterwards.
func (s *Spec) Emit() map[string]string {
	files := map[string]string{}
	files["types.go"] = s.emitTypes("")
	files["providers.go"] = s.emitProviders("")
	for _, e := range s.ExtPkgs {
		files[e.Dir+"/types.go"] = s.emitTypes(e.Dir)
		files[e.Dir+"/providers.go"] = s.emitProviders(e.Dir)
	}
	for i, f := range s.Files {
		files[f] = s.emitDecls(i)
	}
	if s.Dynamic {
		files["reg.go"] = s.emitReg()
	}
	return files
}

func (s *Spec) progPath() string { return ModulePath + "/progs/" + s.Name }

func (s *Spec) extImport(e ExtPkg) string {
	if e.Alias != "" {
		return fmt.Sprintf("\t%s %q\n", e.Alias, s.progPath()+"/"+e.Dir)
	}
	return fmt.Sprintf("\t%q\n", s.progPath()+"/"+e.Dir)
}

// header builds a file header importing only what body uses.
// stdImports: standard-library packages that generated harness files may mention.
var stdImports = [][2]string{{"context.", "context"}, {"fmt.", "fmt"}, {"reflect.", "reflect"}, {"url.", "net/url"}, {"netip.", "net/netip"}, {"big.", "math/big"}, {"time.", "time"}, {"sql.", "database/sql"}}

func (s *Spec) header(pkgName string, body string, inMain bool) string {
	self := "\x00none"
	if inMain {
		self = ""
	}
	return s.headerDir(pkgName, body, self)
}

// headerDir builds the import block of a file of the package in directory
// selfDir ("" = main package; sibling packages may import the standard
// library and other sibling packages, never the main package).
func (s *Spec) headerDir(pkgName string, body string, selfDir string) string {
	var b strings.Builder
	fmt.Fprintf(&b, "package %s\n\nimport (\n", pkgName)
	word := func(prefix string) bool {
		return regexp.MustCompile(`(^|[^A-Za-z0-9_])` + regexp.QuoteMeta(prefix)).MatchString(body)
	}
	for _, si := range stdImports {
		if word(si[0]) {
			fmt.Fprintf(&b, "\t%q\n", si[1])
		}
	}
	if strings.Contains(body, "kessoku.") {
		b.WriteString("\t\"github.com/mazrean/kessoku\"\n")
	}
	if strings.Contains(body, "probe.") {
		fmt.Fprintf(&b, "\t%q\n", ModulePath+"/probe")
	}
	if selfDir != "\x00none" {
		for _, e := range s.ExtPkgs {
			if e.Dir == selfDir {
				continue
			}
			if word(s.importName(e.Dir) + ".") {
				b.WriteString(s.extImport(e))
			}
		}
	}
	b.WriteString(")\n\n")
	return b.String()
}

func (s *Spec) mainPkgName() string { return s.PkgName }

// carriesH tells whether a type has mk/h helpers.
func (s *Spec) carriesH(t *Type) bool { return t.Kind != KRaw && t.Kind != KCtx }

type forwarder struct {
	id   int
	text string
}

func (s *Spec) emitTypes(pkg string) string {
	var b strings.Builder
	var fwd []forwarder
	for _, t := range s.Types {
		tp := t.Pkg
		if t.Base >= 0 {
			tp = s.typePkg(t.ID)
		}
		if t.Kind == KRaw {
			if pkg == "" && t.RawDecl != "" {
				b.WriteString(t.RawDecl + "\n")
			}
			continue
		}
		if t.Kind == KCtx {
			continue
		}
		// declarations live in the type's own package; helpers for composite
		// types live where their base lives; main gets forwarding helpers.
		if tp == pkg {
			s.emitTypeDecl(&b, t, pkg)
		} else if pkg == "" && !s.NoForward {
			// forwarding helpers to the ext package
			ex := s.Expr(t.ID, "")
			q := s.importName(tp)
			fwd = append(fwd, forwarder{t.ID, fmt.Sprintf("func mk%d(h uint64) %s { return %s.Mk%d(h) }\nfunc h%d(x %s) uint64 { return %s.H%d(x) }\n\n", t.ID, ex, q, t.ID, t.ID, ex, q, t.ID)})
		}
	}
	if len(fwd) > 0 {
		// programs that are only compiled keep just the helpers something
		// refers to: a helper nobody needs would make the main package import
		// a sibling package that the declarations reach only indirectly, and
		// an import in ANY file of the package hides import-bookkeeping faults
		rest := ""
		if !s.Dynamic {
			rest = b.String() + s.emitProviders("")
			for i := range s.Files {
				rest += s.emitDecls(i)
			}
		}
		for _, f := range fwd {
			if s.Dynamic || regexp.MustCompile(fmt.Sprintf(`\b(mk|h)%d\(`, f.id)).MatchString(rest) {
				b.WriteString(f.text)
			}
		}
	}
	if pkg == "" && s.ExtraDecl != "" {
		b.WriteString("\n" + s.ExtraDecl + "\n")
	}
	if pkg != "" && s.ExtDecl[pkg] != "" {
		b.WriteString("\n" + s.ExtDecl[pkg] + "\n")
	}
	body := b.String()
	name := s.mainPkgName()
	if pkg != "" {
		name = s.extName(pkg)
	}
	return s.headerDir(name, body, pkg) + body
}

// typePkg: the package whose identifiers are needed to spell the type.
func (s *Spec) typePkg(id int) string {
	t := s.Types[id]
	if t.Base >= 0 {
		return s.typePkg(t.Base)
	}
	return t.Pkg
}

func (s *Spec) fn(prefix string, id int, pkg string) string {
	// helper names are exported in ext packages
	if pkg != "" {
		return strings.Title(prefix) + fmt.Sprint(id)
	}
	return prefix + fmt.Sprint(id)
}

func (s *Spec) emitTypeDecl(b *strings.Builder, t *Type, pkg string) {
	ex := s.Expr(t.ID, pkg)
	mk, h := s.fn("mk", t.ID, pkg), s.fn("h", t.ID, pkg)
	switch t.Kind {
	case KStruct:
		if t.Pure {
			fmt.Fprintf(b, "type %s struct {\n", t.Name)
		} else {
			fmt.Fprintf(b, "type %s struct {\n\tv probe.V\n", t.Name)
		}
		for _, f := range t.Fields {
			tag := ""
			if f.Tag != "" {
				tag = " `" + f.Tag + "`"
			}
			if f.Embedded {
				fmt.Fprintf(b, "\t%s%s\n", s.Expr(f.T, pkg), tag)
			} else if f.Alias != "" && pkg == "" {
				fmt.Fprintf(b, "\t%s %s%s\n", f.Name, f.Alias, tag)
			} else {
				fmt.Fprintf(b, "\t%s %s%s\n", f.Name, s.Expr(f.T, pkg), tag)
			}
		}
		if t.Pure {
			fmt.Fprintf(b, "}\n\n")
		} else {
			fmt.Fprintf(b, "\thidden%d int\n}\n\n", t.ID)
		}
		recv := "x " + t.Name
		if t.PtrRecv {
			recv = "x *" + t.Name
		}
		for _, it := range t.Impl {
			if t.PtrRecv {
				fmt.Fprintf(b, "func (%s) H%s() uint64 { return %s(*x) }\n", recv, s.Types[it].Name, h)
			} else {
				fmt.Fprintf(b, "func (%s) H%s() uint64 { return %s(x) }\n", recv, s.Types[it].Name, h)
			}
		}
		if t.Pure {
			fmt.Fprintf(b, "func %s(h uint64) %s {\n\tx := %s{}\n", mk, ex, t.Name)
		} else {
			fmt.Fprintf(b, "func %s(h uint64) %s {\n\tx := %s{v: probe.V{H: h}}\n", mk, ex, t.Name)
		}
		for fi, f := range t.Fields {
			if !s.carriesH(s.Types[f.T]) {
				continue
			}
			mkf := fmt.Sprintf("mk%d", f.T)
			if pkg != "" {
				mkf = s.fn("mk", f.T, pkg) // a sibling-package struct only has fields of its own package
			}
			fmt.Fprintf(b, "\tx.%s = %s(probe.Mix(h, %d))\n", f.Name, mkf, 1000+fi)
		}
		fmt.Fprintf(b, "\treturn x\n}\n")
		if t.Pure {
			fmt.Fprintf(b, "func %s(x %s) uint64 {\n", h, ex)
		} else {
			fmt.Fprintf(b, "func %s(x %s) uint64 {\n\tif x.v.H != 0 {\n\t\treturn x.v.H\n\t}\n", h, ex)
		}
		hasF := false
		var parts []string
		for _, f := range t.Fields {
			if s.carriesH(s.Types[f.T]) {
				hasF = true
				if pkg != "" {
					parts = append(parts, fmt.Sprintf("%s(x.%s)", s.fn("h", f.T, pkg), f.Name))
				} else {
					parts = append(parts, fmt.Sprintf("h%d(x.%s)", f.T, f.Name))
				}
			} else {
				parts = append(parts, "0")
			}
		}
		if hasF {
			// a struct assembled field by field (wire.Struct): identity derives from its fields
			fmt.Fprintf(b, "\treturn probe.Mix(0x57, %s)\n}\n\n", strings.Join(parts, ", "))
		} else {
			fmt.Fprintf(b, "\treturn 0\n}\n\n")
		}
	case KPtr:
		bm, bh := s.fn("mk", t.Base, pkg), s.fn("h", t.Base, pkg)
		fmt.Fprintf(b, "func %s(h uint64) %s { x := %s(h); return &x }\n", mk, ex, bm)
		fmt.Fprintf(b, "func %s(x %s) uint64 {\n\tif x == nil {\n\t\treturn 0\n\t}\n\treturn %s(*x)\n}\n\n", h, ex, bh)
	case KIface:
		fmt.Fprintf(b, "type %s interface{ H%s() uint64 }\n", t.Name, t.Name)
		fmt.Fprintf(b, "type impl%d struct{ h uint64 }\n", t.ID)
		fmt.Fprintf(b, "func (x impl%d) H%s() uint64 { return x.h }\n", t.ID, t.Name)
		fmt.Fprintf(b, "func %s(h uint64) %s { return impl%d{h} }\n", mk, ex, t.ID)
		fmt.Fprintf(b, "func %s(x %s) uint64 {\n\tif x == nil {\n\t\treturn 0\n\t}\n\treturn x.H%s()\n}\n\n", h, ex, t.Name)
	case KNamedStr:
		fmt.Fprintf(b, "type %s string\n", t.Name)
		fmt.Fprintf(b, "func %s(h uint64) %s { return %s(probe.HexOf(h)) }\n", mk, ex, t.Name)
		fmt.Fprintf(b, "func %s(x %s) uint64 { return probe.StrH(string(x)) }\n\n", h, ex)
	case KNamedInt:
		fmt.Fprintf(b, "type %s int64\n", t.Name)
		fmt.Fprintf(b, "func %s(h uint64) %s { return %s(int64(h)) }\n", mk, ex, t.Name)
		fmt.Fprintf(b, "func %s(x %s) uint64 { return uint64(x) }\n\n", h, ex)
	case KSlice:
		bm, bh := s.fn("mk", t.Base, pkg), s.fn("h", t.Base, pkg)
		fmt.Fprintf(b, "func %s(h uint64) %s { return %s{%s(h)} }\n", mk, ex, ex, bm)
		fmt.Fprintf(b, "func %s(x %s) uint64 {\n\tif len(x) == 0 {\n\t\treturn 0\n\t}\n\treturn %s(x[0])\n}\n\n", h, ex, bh)
	case KArray:
		bm, bh := s.fn("mk", t.Base, pkg), s.fn("h", t.Base, pkg)
		fmt.Fprintf(b, "func %s(h uint64) %s { return %s{%s(h)} }\n", mk, ex, ex, bm)
		fmt.Fprintf(b, "func %s(x %s) uint64 { return %s(x[0]) }\n\n", h, ex, bh)
	case KMap:
		bm, bh := s.fn("mk", t.Base, pkg), s.fn("h", t.Base, pkg)
		fmt.Fprintf(b, "func %s(h uint64) %s { return %s{\"k\": %s(h)} }\n", mk, ex, ex, bm)
		fmt.Fprintf(b, "func %s(x %s) uint64 { return %s(x[\"k\"]) }\n\n", h, ex, bh)
	case KFunc:
		bm, bh := s.fn("mk", t.Base, pkg), s.fn("h", t.Base, pkg)
		bex := s.Expr(t.Base, pkg)
		fmt.Fprintf(b, "func %s(h uint64) %s { return func() %s { return %s(h) } }\n", mk, ex, bex, bm)
		fmt.Fprintf(b, "func %s(x %s) uint64 {\n\tif x == nil {\n\t\treturn 0\n\t}\n\treturn %s(x())\n}\n\n", h, ex, bh)
	case KAnon:
		fmt.Fprintf(b, "func %s(h uint64) %s { return %s{h} }\n", mk, ex, ex)
		fmt.Fprintf(b, "func %s(x %s) uint64 { return x.%s }\n\n", h, ex, t.Name)
	case KBasic:
		switch t.Name {
		case "any":
			// element type of ...any parameters: carries a probe.V
			fmt.Fprintf(b, "func %s(h uint64) any { return probe.V{H: h} }\n", mk)
			fmt.Fprintf(b, "func %s(x any) uint64 {\n\tif v, ok := x.(probe.V); ok {\n\t\treturn v.H\n\t}\n\treturn 0xBAD0BAD0\n}\n\n", h)
		case "string":
			fmt.Fprintf(b, "func %s(h uint64) string { return probe.HexOf(h) }\n", mk)
			fmt.Fprintf(b, "func %s(x string) uint64 { return probe.StrH(x) }\n\n", h)
		default:
			fmt.Fprintf(b, "func %s(h uint64) %s { return %s(h) }\n", mk, t.Name, t.Name)
			fmt.Fprintf(b, "func %s(x %s) uint64 { return uint64(x) }\n\n", h, t.Name)
		}
	}
}

// helperPkg: package in which helpers of type id are declared, as seen from pkg.
func (s *Spec) helperPkg(id int, from string) string {
	p := s.typePkg(id)
	if s.Types[id].Kind == KBasic || s.Types[id].Kind == KAnon {
		return from // basic helpers are emitted in the main package only; ext structs never have such fields
	}
	return p
}

func (s *Spec) emitProviders(pkg string) string {
	var b strings.Builder
	for _, p := range s.Provs {
		if p.Kind != PFunc || p.Pkg != pkg {
			continue
		}
		var ps, rs, hs []string
		for i, t := range p.Params {
			ex := s.Expr(t, pkg)
			if i < len(p.ParamSpell) && p.ParamSpell[i] != "" {
				ex = p.ParamSpell[i]
			}
			if p.Variadic && i == len(p.Params)-1 {
				ex = "..." + strings.TrimPrefix(ex, "[]")
			}
			ps = append(ps, fmt.Sprintf("a%d %s", i, ex))
			switch {
			case s.Types[t].Kind == KCtx:
				hs = append(hs, fmt.Sprintf("probe.CtxH(a%d)", i))
			case s.carriesH(s.Types[t]):
				hs = append(hs, fmt.Sprintf("%s(a%d)", s.fn("h", t, pkg), i))
			default:
				hs = append(hs, "0")
			}
		}
		for i, t := range p.Results {
			if i < len(p.ResultSpell) && p.ResultSpell[i] != "" {
				rs = append(rs, p.ResultSpell[i])
				continue
			}
			rs = append(rs, s.Expr(t, pkg))
		}
		if p.Err {
			rs = append(rs, "error")
		}
		res := strings.Join(rs, ", ")
		if len(rs) > 1 {
			res = "(" + res + ")"
		}
		fmt.Fprintf(&b, "func %s(%s) %s {\n", p.Fn, strings.Join(ps, ", "), res)
		if !s.Dynamic {
			// static family: bodies are never executed
			b.WriteString("\tpanic(\"static program\")\n}\n\n")
			continue
		}
		ctxArg := "nil"
		for i, t := range p.Params {
			if s.Types[t].Kind == KCtx {
				ctxArg = fmt.Sprintf("a%d", i)
			}
		}
		fmt.Fprintf(&b, "\tc := probe.Enter(%d, %s", p.ID, ctxArg)
		for _, h := range hs {
			b.WriteString(", " + h)
		}
		b.WriteString(")\n")
		var outs []string
		for i, t := range p.Results {
			fmt.Fprintf(&b, "\tr%d := %s(c.Out(%d))\n", i, s.fn("mk", t, pkg), i)
			outs = append(outs, fmt.Sprintf("r%d", i))
		}
		if p.Err {
			fmt.Fprintf(&b, "\treturn %s, c.Exit()\n}\n\n", strings.Join(outs, ", "))
		} else {
			fmt.Fprintf(&b, "\tc.Exit()\n\treturn %s\n}\n\n", strings.Join(outs, ", "))
		}
	}
	body := b.String()
	name := s.mainPkgName()
	if pkg != "" {
		name = s.extName(pkg)
	}
	return s.headerDir(name, body, pkg) + body
}

// ProvExpr renders the kessoku provider expression of p.
func (s *Spec) ProvExpr(p *Prov) string {
	var inner string
	switch p.Kind {
	case PValue:
		return fmt.Sprintf("kessoku.Value(%s)", p.ValExpr)
	case PStruct:
		inner = fmt.Sprintf("kessoku.Struct[%s]()", s.Expr(p.Results[0], ""))
		if p.TypeAlias != "" {
			inner = fmt.Sprintf("kessoku.Struct[%s]()", p.TypeAlias)
		}
		if p.Async {
			inner = "kessoku.Async(" + inner + ")"
		}
		return inner
	}
	fn := p.Fn
	if p.Pkg != "" {
		fn = s.importName(p.Pkg) + "." + p.Fn
	}
	if p.Lit {
		var ps, as, rs []string
		for i, t := range p.Params {
			ex := s.Expr(t, "")
			a := fmt.Sprintf("p%d", i)
			if p.Variadic && i == len(p.Params)-1 {
				ex = "..." + strings.TrimPrefix(ex, "[]")
				a += "..."
			}
			ps = append(ps, fmt.Sprintf("p%d %s", i, ex))
			as = append(as, a)
		}
		for _, t := range p.Results {
			rs = append(rs, s.Expr(t, ""))
		}
		if p.Err {
			rs = append(rs, "error")
		}
		res := strings.Join(rs, ", ")
		if len(rs) > 1 {
			res = "(" + res + ")"
		}
		fn = fmt.Sprintf("func(%s) %s { return %s(%s) }", strings.Join(ps, ", "), res, fn, strings.Join(as, ", "))
	}
	inner = fmt.Sprintf("kessoku.Provide(%s)", fn)
	wrapBind := func(x string) string {
		for _, b := range p.Binds {
			x = fmt.Sprintf("kessoku.Bind[%s](%s)", s.Expr(b, ""), x)
		}
		return x
	}
	if p.BindOut {
		if p.Async {
			inner = "kessoku.Async(" + inner + ")"
		}
		return wrapBind(inner)
	}
	inner = wrapBind(inner)
	if p.Async {
		inner = "kessoku.Async(" + inner + ")"
	}
	return inner
}

func (s *Spec) itemsExpr(items []Item, indent string) string {
	var b strings.Builder
	for _, it := range items {
		switch {
		case it.Inline != nil:
			fmt.Fprintf(&b, "%skessoku.Set(\n%s%s),\n", indent, s.itemsExpr(it.Inline, indent+"\t"), indent)
		case it.Set != "" && s.Parens:
			fmt.Fprintf(&b, "%s(%s),\n", indent, it.Set)
		case it.Set != "":
			fmt.Fprintf(&b, "%s%s,\n", indent, it.Set)
		case it.Raw != "":
			fmt.Fprintf(&b, "%s%s,\n", indent, it.Raw)
		case s.Parens:
			fmt.Fprintf(&b, "%s(%s),\n", indent, s.ProvExpr(s.Provs[it.Prov]))
		default:
			fmt.Fprintf(&b, "%s%s,\n", indent, s.ProvExpr(s.Provs[it.Prov]))
		}
	}
	return b.String()
}

func (s *Spec) emitDecls(file int) string {
	var b strings.Builder
	for _, sd := range s.Sets {
		if sd.File == file {
			fmt.Fprintf(&b, "var %s = kessoku.Set(\n%s)\n\n", sd.Name, s.itemsExpr(sd.Items, "\t"))
		}
	}
	for _, in := range s.Injectors {
		if in.File == file {
			fmt.Fprintf(&b, "var _ = kessoku.Inject[%s](\n\t%q,\n%s)\n\n", s.Expr(in.Ret, ""), in.Name, s.itemsExpr(in.Items, "\t"))
		}
	}
	body := b.String()
	if body == "" {
		body = "var _ = 0\n"
	}
	hdr := s.header(s.mainPkgName(), body, true)
	if s.DotImport != "" {
		// the declaration files import this sibling package with a dot
		for _, e := range s.ExtPkgs {
			if e.Dir != s.DotImport {
				continue
			}
			q := s.importName(e.Dir)
			body = regexp.MustCompile(`(^|[^A-Za-z0-9_.])`+regexp.QuoteMeta(q)+`\.`).ReplaceAllString(body, "${1}")
			hdr = strings.Replace(hdr, s.extImport(e), fmt.Sprintf("\t. %q\n", s.progPath()+"/"+e.Dir), 1)
		}
	}
	if s.KessokuAlias != "" {
		body = strings.ReplaceAll(body, "kessoku.", s.KessokuAlias+".")
		hdr = strings.Replace(hdr, "\t\"github.com/mazrean/kessoku\"", "\t"+s.KessokuAlias+" \"github.com/mazrean/kessoku\"", 1)
	}
	return "//go:generate go tool kessoku $GOFILE\n\n" + hdr + body
}

func (s *Spec) emitReg() string {
	var b strings.Builder
	fmt.Fprintf(&b, "func init() {\n\tpr := &probe.Program{Name: %q}\n", s.Name)
	for _, t := range s.Types {
		if !s.carriesH(t) {
			continue
		}
		ex := s.Expr(t.ID, "")
		fmt.Fprintf(&b, "\tpr.Type(%d, reflect.TypeOf((*%s)(nil)).Elem(), func(h uint64) reflect.Value { return reflect.ValueOf(mk%d(h)) }, func(v reflect.Value) uint64 { return h%d(v.Interface().(%s)) })\n",
			t.ID, ex, t.ID, t.ID, ex)
	}
	names := []string{}
	for _, in := range s.Injectors {
		names = append(names, in.Name)
	}
	sort.Strings(names)
	for _, n := range names {
		fmt.Fprintf(&b, "\tpr.Injector(%q, %s)\n", n, n)
	}
	b.WriteString("\tprobe.Register(pr)\n}\n")
	body := b.String()
	return s.header(s.mainPkgName(), body, true) + body
}

// Header renders a main-package file header importing what body uses.
func (s *Spec) Header(body string) string { return s.header(s.mainPkgName(), body, true) }

// extName returns the package name of the sibling package in directory dir.
func (s *Spec) extName(dir string) string {
	for _, e := range s.ExtPkgs {
		if e.Dir == dir {
			return e.Name
		}
	}
	return dir
}
