#!/bin/sh
# Runs the repository's own test suite with the verif guard OFF (no build tag),
# on a scratch copy so that /repo's go.work.sum is not rewritten.
set -e
for d in /root/go/pkg/mod/golang.org/toolchain@v0.0.1-go1.25.5.linux-amd64/bin /opt/veriftools/go1.26.8/bin; do
  if [ -x "$d/go" ]; then PATH="$d:$PATH"; break; fi
done
export PATH GOTOOLCHAIN=local GOPROXY=off GOSUMDB=off GOFLAGS=
T=$(mktemp -d /tmp/vk-baseline-XXXXXX)
trap 'rm -rf "$T"' EXIT
rsync -a --exclude .git /repo/ "$T/"
rc=0
for m in . tools; do
  (cd "$T/$m" && go test -vet=off -count=1 ./...) || rc=1
done
exit $rc
